#!/usr/bin/env python3
# Validates MANIFEST.json and every evidence file against the task's schemas (uses the tooling venv).
import json, sys, glob
import jsonschema
ok = True
m = json.load(open('/verif/MANIFEST.json'))
try:
    jsonschema.validate(m, json.load(open('/root/.vp/MANIFEST.schema.json')))
    print("MANIFEST ok: %d checks, %d not_applicable" % (len(m['checks']), len(m.get('not_applicable', []))))
except Exception as e:
    ok = False; print("MANIFEST INVALID:", e)
es = json.load(open('/root/.vp/EVIDENCE.schema.json'))
for c in m['checks']:
    try:
        ev = json.load(open(c['evidence_file']))
        jsonschema.validate(ev, es)
        print(c['property_id'], 'evidence ok', ev['tier'], ev['coverage']['evaluations'], ev['coverage']['distinct_nontrivial'])
    except Exception as e:
        ok = False; print(c['property_id'], "EVIDENCE PROBLEM:", str(e)[:300])
sys.exit(0 if ok else 1)
