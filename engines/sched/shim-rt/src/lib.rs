//! `verif_rt` for the schedule-controlled flavour (see Cargo.toml).
use std::sync::atomic::{AtomicBool, Ordering};

static YIELD_AFTER_UNLOCK: AtomicBool = AtomicBool::new(true);

/// Chosen by the harness per execution (derived from the schedule's seed): half of the explored
/// schedules have the extra switch point after every unlock, the other half keep shuttle's own
/// switch points only - more switch points dilute the chance of any particular interleaving.
pub fn set_yield_after_unlock(on: bool) {
    YIELD_AFTER_UNLOCK.store(on, Ordering::SeqCst);
}
pub mod thread {
    pub use shuttle::thread::*;
}

pub mod sync {
    pub use shuttle::sync::{Arc, Weak};
    pub use std::sync::{LockResult, PoisonError, TryLockError, TryLockResult};
    use std::ops::{Deref, DerefMut};

    /// shuttle's Mutex; the guard yields to the scheduler after it has released the lock.
    #[derive(Debug, Default)]
    pub struct Mutex<T: ?Sized>(shuttle::sync::Mutex<T>);

    pub struct MutexGuard<'a, T: ?Sized>(Option<shuttle::sync::MutexGuard<'a, T>>);

    impl<T> Mutex<T> {
        pub fn new(t: T) -> Self {
            Mutex(shuttle::sync::Mutex::new(t))
        }
        pub fn into_inner(self) -> LockResult<T> {
            self.0.into_inner()
        }
    }

    impl<T: ?Sized> Mutex<T> {
        pub fn lock(&self) -> LockResult<MutexGuard<'_, T>> {
            match self.0.lock() {
                Ok(g) => Ok(MutexGuard(Some(g))),
                Err(p) => Err(PoisonError::new(MutexGuard(Some(p.into_inner())))),
            }
        }
        pub fn try_lock(&self) -> TryLockResult<MutexGuard<'_, T>> {
            match self.0.try_lock() {
                Ok(g) => Ok(MutexGuard(Some(g))),
                Err(TryLockError::Poisoned(p)) => Err(TryLockError::Poisoned(PoisonError::new(MutexGuard(Some(p.into_inner()))))),
                Err(TryLockError::WouldBlock) => Err(TryLockError::WouldBlock),
            }
        }
        pub fn get_mut(&mut self) -> LockResult<&mut T> {
            self.0.get_mut()
        }
    }

    impl<T: ?Sized> Deref for MutexGuard<'_, T> {
        type Target = T;
        fn deref(&self) -> &T {
            self.0.as_ref().unwrap()
        }
    }
    impl<T: ?Sized> DerefMut for MutexGuard<'_, T> {
        fn deref_mut(&mut self) -> &mut T {
            self.0.as_mut().unwrap()
        }
    }
    impl<T: ?Sized + std::fmt::Debug> std::fmt::Debug for MutexGuard<'_, T> {
        fn fmt(&self, f: &mut std::fmt::Formatter<'_>) -> std::fmt::Result {
            std::fmt::Debug::fmt(&**self, f)
        }
    }
    impl<T: ?Sized> Drop for MutexGuard<'_, T> {
        fn drop(&mut self) {
            drop(self.0.take());
            // a switch point right after the critical section (not while unwinding)
            if !std::thread::panicking() && crate::YIELD_AFTER_UNLOCK.load(std::sync::atomic::Ordering::SeqCst) {
                shuttle::thread::yield_now();
            }
        }
    }
}
