//! Stand-in for the part of `rusty_pool` 0.7 that rs-store uses, on shuttle threads.
//!
//! Model: every `execute` runs its task on a fresh named shuttle thread
//! (`"{pool}_thread_{n}"`, like a rusty_pool worker started with an initial task — the real pool
//! does exactly this while fewer than `core_size = ncpu` workers exist and afterwards queues the
//! task for an idle worker; either way the task runs on *some* worker thread that is not the
//! caller, exactly once, concurrently with everything else). A panicking task ends only itself
//! (the real pool's sentinel replaces the dead worker). `join*` / `shutdown_join*` wait until no
//! task is active; **timeouts never expire** (the schedule-controlled runtime has no clock), so a
//! `stop()` that can only return through its timeout shows up as a deadlock.
//! All clones share the same bookkeeping, like clones of the real `ThreadPool`.
use shuttle::sync::{Condvar, Mutex};
use shuttle::thread;
use std::sync::Arc;
use std::time::Duration;

struct Shared {
    name: String,
    st: Mutex<St>,
    idle: Condvar,
}
struct St {
    active: usize,
    next_worker: usize,
}

#[derive(Clone)]
pub struct ThreadPool {
    sh: Arc<Shared>,
}

#[derive(Default)]
pub struct Builder {
    name: Option<String>,
}

impl Builder {
    pub fn new() -> Builder {
        Builder::default()
    }
    pub fn name(mut self, name: String) -> Builder {
        self.name = Some(name);
        self
    }
    pub fn core_size(self, _size: usize) -> Builder {
        self
    }
    pub fn max_size(self, _size: usize) -> Builder {
        self
    }
    pub fn keep_alive(self, _d: Duration) -> Builder {
        self
    }
    pub fn build(self) -> ThreadPool {
        ThreadPool {
            sh: Arc::new(Shared {
                name: self.name.unwrap_or_else(|| "rusty_pool_x".to_string()),
                st: Mutex::new(St { active: 0, next_worker: 1 }),
                idle: Condvar::new(),
            }),
        }
    }
}

struct Done(Arc<Shared>);
impl Drop for Done {
    fn drop(&mut self) {
        let idle = {
            let mut g = self.0.st.lock().unwrap();
            g.active -= 1;
            g.active == 0
        };
        if idle {
            self.0.idle.notify_all();
        }
    }
}

impl ThreadPool {
    pub fn execute<T: FnOnce() + Send + 'static>(&self, task: T) {
        let n = {
            let mut g = self.sh.st.lock().unwrap();
            g.active += 1;
            let n = g.next_worker;
            g.next_worker += 1;
            n
        };
        let sh = self.sh.clone();
        let name = format!("{}_thread_{}", self.sh.name, n);
        thread::Builder::new()
            .name(name)
            .spawn(move || {
                let done = Done(sh);
                let _ = std::panic::catch_unwind(std::panic::AssertUnwindSafe(task));
                drop(done);
            })
            .expect("could not spawn thread");
    }
    fn wait_idle(sh: &Arc<Shared>) {
        let mut g = sh.st.lock().unwrap();
        while g.active != 0 {
            g = sh.idle.wait(g).unwrap();
        }
    }
    pub fn join(&self) {
        Self::wait_idle(&self.sh);
    }
    pub fn join_timeout(&self, _time_out: Duration) {
        Self::wait_idle(&self.sh);
    }
    pub fn shutdown(self) {}
    pub fn shutdown_join(self) {
        let sh = self.sh.clone();
        drop(self);
        Self::wait_idle(&sh);
    }
    pub fn shutdown_join_timeout(self, _timeout: Duration) {
        self.shutdown_join();
    }
    pub fn get_name(&self) -> &str {
        &self.sh.name
    }
}
