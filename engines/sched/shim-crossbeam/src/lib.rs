//! Stand-in for the part of `crossbeam::channel` that rs-store uses, built on shuttle's
//! `Mutex`/`Condvar` so that every send/recv/len/clone/drop is a scheduling point of the
//! schedule-controlled driver. Semantics mirrored from crossbeam-channel 0.5 bounded (array
//! flavour): FIFO, MPMC, `send` blocks while full, `recv` blocks while empty, disconnects when
//! the last sender (resp. receiver) is dropped, buffered messages stay receivable after the
//! senders are gone. Capacity 0 (rendezvous) is not modelled and is rejected.
//! Checked against the real crate by the shim differential (`vsched shimdiff`).
pub mod channel {
    use shuttle::sync::{Condvar, Mutex};
    use std::collections::VecDeque;
    use std::fmt;
    use std::sync::Arc;

    struct Inner<T> {
        q: VecDeque<T>,
        cap: usize,
        senders: usize,
        receivers: usize,
    }
    struct Chan<T> {
        m: Mutex<Inner<T>>,
        not_empty: Condvar,
        not_full: Condvar,
    }

    pub struct Sender<T> {
        c: Arc<Chan<T>>,
    }
    pub struct Receiver<T> {
        c: Arc<Chan<T>>,
    }

    #[derive(PartialEq, Eq, Clone, Copy)]
    pub struct SendError<T>(pub T);
    #[derive(PartialEq, Eq, Clone, Copy)]
    pub enum TrySendError<T> {
        Full(T),
        Disconnected(T),
    }
    #[derive(PartialEq, Eq, Clone, Copy, Debug)]
    pub struct RecvError;
    #[derive(PartialEq, Eq, Clone, Copy, Debug)]
    pub enum TryRecvError {
        Empty,
        Disconnected,
    }

    impl<T> SendError<T> {
        pub fn into_inner(self) -> T {
            self.0
        }
    }
    impl<T> TrySendError<T> {
        pub fn into_inner(self) -> T {
            match self {
                TrySendError::Full(v) | TrySendError::Disconnected(v) => v,
            }
        }
        pub fn is_full(&self) -> bool {
            matches!(self, TrySendError::Full(_))
        }
        pub fn is_disconnected(&self) -> bool {
            matches!(self, TrySendError::Disconnected(_))
        }
    }
    impl<T> From<SendError<T>> for TrySendError<T> {
        fn from(e: SendError<T>) -> Self {
            TrySendError::Disconnected(e.0)
        }
    }
    #[derive(PartialEq, Eq, Clone, Copy, Debug)]
    pub enum RecvTimeoutError {
        Timeout,
        Disconnected,
    }
    #[derive(PartialEq, Eq, Clone, Copy)]
    pub enum SendTimeoutError<T> {
        Timeout(T),
        Disconnected(T),
    }
    impl<T> fmt::Debug for SendTimeoutError<T> {
        fn fmt(&self, f: &mut fmt::Formatter<'_>) -> fmt::Result {
            "SendTimeoutError(..)".fmt(f)
        }
    }
    impl<T> fmt::Debug for SendError<T> {
        fn fmt(&self, f: &mut fmt::Formatter<'_>) -> fmt::Result {
            "SendError(..)".fmt(f)
        }
    }
    impl<T> fmt::Display for SendError<T> {
        fn fmt(&self, f: &mut fmt::Formatter<'_>) -> fmt::Result {
            "sending on a disconnected channel".fmt(f)
        }
    }
    impl<T: Send> std::error::Error for SendError<T> {}
    impl<T> fmt::Debug for TrySendError<T> {
        fn fmt(&self, f: &mut fmt::Formatter<'_>) -> fmt::Result {
            match self {
                TrySendError::Full(..) => "Full(..)".fmt(f),
                TrySendError::Disconnected(..) => "Disconnected(..)".fmt(f),
            }
        }
    }
    impl<T> fmt::Display for TrySendError<T> {
        fn fmt(&self, f: &mut fmt::Formatter<'_>) -> fmt::Result {
            match self {
                TrySendError::Full(..) => "sending on a full channel".fmt(f),
                TrySendError::Disconnected(..) => "sending on a disconnected channel".fmt(f),
            }
        }
    }
    impl<T: Send> std::error::Error for TrySendError<T> {}
    impl fmt::Display for RecvError {
        fn fmt(&self, f: &mut fmt::Formatter<'_>) -> fmt::Result {
            "receiving on an empty and disconnected channel".fmt(f)
        }
    }
    impl std::error::Error for RecvError {}
    impl fmt::Display for TryRecvError {
        fn fmt(&self, f: &mut fmt::Formatter<'_>) -> fmt::Result {
            match self {
                TryRecvError::Empty => "receiving on an empty channel".fmt(f),
                TryRecvError::Disconnected => "receiving on an empty and disconnected channel".fmt(f),
            }
        }
    }
    impl std::error::Error for TryRecvError {}

    /// unbounded flavour (never full)
    pub fn unbounded<T>() -> (Sender<T>, Receiver<T>) {
        bounded(usize::MAX)
    }

    pub fn bounded<T>(cap: usize) -> (Sender<T>, Receiver<T>) {
        assert!(cap >= 1, "shim-crossbeam: zero-capacity (rendezvous) channels are not modelled");
        let c = Arc::new(Chan {
            m: Mutex::new(Inner { q: VecDeque::new(), cap, senders: 1, receivers: 1 }),
            not_empty: Condvar::new(),
            not_full: Condvar::new(),
        });
        (Sender { c: c.clone() }, Receiver { c })
    }

    impl<T> Sender<T> {
        pub fn send(&self, msg: T) -> Result<(), SendError<T>> {
            let mut g = self.c.m.lock().unwrap();
            loop {
                if g.receivers == 0 {
                    return Err(SendError(msg));
                }
                if g.q.len() < g.cap {
                    g.q.push_back(msg);
                    drop(g);
                    self.c.not_empty.notify_all();
                    return Ok(());
                }
                g = self.c.not_full.wait(g).unwrap();
            }
        }
        /// the schedule-controlled runtime has no clock: a timed send never times out
        pub fn send_timeout(&self, msg: T, _d: std::time::Duration) -> Result<(), SendTimeoutError<T>> {
            self.send(msg).map_err(|e| SendTimeoutError::Disconnected(e.0))
        }
        pub fn try_send(&self, msg: T) -> Result<(), TrySendError<T>> {
            let mut g = self.c.m.lock().unwrap();
            if g.receivers == 0 {
                return Err(TrySendError::Disconnected(msg));
            }
            if g.q.len() < g.cap {
                g.q.push_back(msg);
                drop(g);
                self.c.not_empty.notify_all();
                Ok(())
            } else {
                Err(TrySendError::Full(msg))
            }
        }
        pub fn len(&self) -> usize {
            self.c.m.lock().unwrap().q.len()
        }
        pub fn is_empty(&self) -> bool {
            self.len() == 0
        }
        pub fn is_full(&self) -> bool {
            let g = self.c.m.lock().unwrap();
            g.q.len() >= g.cap
        }
        pub fn capacity(&self) -> Option<usize> {
            let c = self.c.m.lock().unwrap().cap;
            if c == usize::MAX {
                None
            } else {
                Some(c)
            }
        }
    }
    impl<T> Receiver<T> {
        pub fn recv(&self) -> Result<T, RecvError> {
            let mut g = self.c.m.lock().unwrap();
            loop {
                if let Some(x) = g.q.pop_front() {
                    drop(g);
                    self.c.not_full.notify_all();
                    return Ok(x);
                }
                if g.senders == 0 {
                    return Err(RecvError);
                }
                g = self.c.not_empty.wait(g).unwrap();
            }
        }
        /// the schedule-controlled runtime has no clock: a timed receive never times out
        pub fn recv_timeout(&self, _d: std::time::Duration) -> Result<T, RecvTimeoutError> {
            self.recv().map_err(|_| RecvTimeoutError::Disconnected)
        }
        pub fn iter(&self) -> impl Iterator<Item = T> + '_ {
            std::iter::from_fn(move || self.recv().ok())
        }
        pub fn try_iter(&self) -> impl Iterator<Item = T> + '_ {
            std::iter::from_fn(move || self.try_recv().ok())
        }
        pub fn try_recv(&self) -> Result<T, TryRecvError> {
            let mut g = self.c.m.lock().unwrap();
            if let Some(x) = g.q.pop_front() {
                drop(g);
                self.c.not_full.notify_all();
                return Ok(x);
            }
            if g.senders == 0 {
                Err(TryRecvError::Disconnected)
            } else {
                Err(TryRecvError::Empty)
            }
        }
        pub fn len(&self) -> usize {
            self.c.m.lock().unwrap().q.len()
        }
        pub fn is_empty(&self) -> bool {
            self.len() == 0
        }
        pub fn is_full(&self) -> bool {
            let g = self.c.m.lock().unwrap();
            g.q.len() >= g.cap
        }
        pub fn capacity(&self) -> Option<usize> {
            let c = self.c.m.lock().unwrap().cap;
            if c == usize::MAX {
                None
            } else {
                Some(c)
            }
        }
    }
    impl<T> Clone for Sender<T> {
        fn clone(&self) -> Self {
            self.c.m.lock().unwrap().senders += 1;
            Sender { c: self.c.clone() }
        }
    }
    impl<T> Clone for Receiver<T> {
        fn clone(&self) -> Self {
            self.c.m.lock().unwrap().receivers += 1;
            Receiver { c: self.c.clone() }
        }
    }
    impl<T> Drop for Sender<T> {
        fn drop(&mut self) {
            let last = {
                let mut g = self.c.m.lock().unwrap();
                g.senders -= 1;
                g.senders == 0
            };
            if last {
                self.c.not_empty.notify_all();
            }
        }
    }
    impl<T> Drop for Receiver<T> {
        fn drop(&mut self) {
            let last = {
                let mut g = self.c.m.lock().unwrap();
                g.receivers -= 1;
                g.receivers == 0
            };
            if last {
                self.c.not_full.notify_all();
            }
        }
    }
}
