//! Validation of the trusted base of the schedule-controlled flavour (run by `./check setup`
//! and usable any time):
//!  * shim differential: generated single-task operation sequences on the real
//!    `crossbeam::channel::bounded` and on the stand-in must agree on every return value;
//!  * engine differential: deterministic scenarios (single producer) must produce the same
//!    reducer-context event sequence and the same client-visible results on real threads (R) and
//!    under the schedule-controlled runtime (S).
use crate::exec::{execute, Sched};
use crate::log::*;
use crate::profile::*;
use crate::props;
use crate::scenario::*;
use proptest::strategy::{Strategy, ValueTree};
use proptest::test_runner::{Config, RngSeed, TestRunner};
use std::sync::Arc;

fn sample_scenarios() -> Vec<Scenario> {
    let mut v = vec![];
    let c12 = props::by_id("C12").unwrap();
    let spec = (c12.enumerate.unwrap())(Tier::Quick, false);
    for i in (0..spec.n).step_by(7) {
        let scn = (spec.make)(i);
        if deterministic(&scn) {
            v.push(scn);
        }
        if v.len() == 12 {
            break;
        }
    }
    let mut config = Config::default();
    config.rng_seed = RngSeed::Fixed(0xD1FF);
    config.failure_persistence = None;
    let mut runner = TestRunner::new(config);
    for id in ["C12", "C16"] {
        let p = props::by_id(id).unwrap();
        let strat = (p.raw)(Tier::Quick);
        let mut taken = 0;
        while taken < 40 {
            let raw = strat.new_tree(&mut runner).unwrap().current();
            let mut raw1 = raw.clone();
            raw1.threads.truncate(1); // single producer => deterministic pipeline
            let mut scn = (p.build)(&raw1, Tier::Quick, false);
            // follow-up actions are dispatched by pool workers at arbitrary times: keep only the
            // effects that do not feed the pipeline, and do not wait for follow-ups
            for a in scn.actions.iter_mut() {
                a.effects.retain(|(_, e)| matches!(e.kind, EffKind::Task | EffKind::Function));
            }
            if id == "C12" {
                for t in scn.threads.iter_mut() {
                    t.retain(|o| !matches!(o, Op::GateAwait { gate: 0, .. }));
                }
            }
            // two stores have two reducer threads: their relative order is schedule-dependent
            if scn.stores.len() != 1 {
                continue;
            }
            if !deterministic(&scn) {
                continue;
            }
            taken += 1;
            v.push(scn);
        }
    }
    v
}

/// A client thread that registers or ends a subscription races the reducer thread's
/// notifications even when it is the only client thread (the same call issued from inside a
/// callback does not): such scenarios have no schedule-independent event sequence.
fn deterministic(scn: &Scenario) -> bool {
    // (and two client threads interleave their returns as the schedule pleases)
    scn.threads.iter().filter(|t| !t.is_empty()).count() <= 1
        && !scn.threads.iter().flatten().any(|o| matches!(o, Op::Unsubscribe { .. } | Op::Subscribe { .. }))
}

/// The projection both flavours must agree on.
fn projection(scn: &Scenario, h: &History) -> Vec<String> {
    let mut pipeline = vec![];
    let mut client = vec![];
    for r in &h.recs {
        match &r.ev {
            Ev::MwIn { .. } | Ev::MwOut { .. } | Ev::MwErr { .. } | Ev::RedIn { .. } | Ev::RedOut { .. } | Ev::SelIn { .. } | Ev::SelCb { .. } => pipeline.push(format!("{:?}", r.ev)),
            Ev::NotIn { sub, .. } | Ev::NotOut { sub, .. } | Ev::Unsub { sub } if matches!(scn.sub(*sub).kind, SubKind::Direct) => pipeline.push(format!("{:?}", r.ev)),
            Ev::Ret { .. } | Ev::Built { .. } => client.push(format!("{:?}", r.ev)),
            _ => {}
        }
    }
    pipeline.extend(client);
    pipeline.push(format!("{:?}", h.end));
    pipeline
}

pub fn engine_diff(mode: &str, path: &str) -> i32 {
    let scns = sample_scenarios();
    let mut all: Vec<Vec<String>> = vec![];
    for s in &scns {
        let scn = Arc::new(s.clone());
        let sched = if crate::rt::SCHED { Sched::Random { seed: scn.hash64() } } else { Sched::Os };
        let h = execute(&scn, &sched);
        all.push(projection(s, &h));
    }
    if mode == "emit" {
        std::fs::create_dir_all(std::path::Path::new(path).parent().unwrap()).ok();
        std::fs::write(path, serde_json::to_string(&all).unwrap()).unwrap();
        println!("enginediff: {} deterministic scenarios executed under driver {} and written to {}", all.len(), crate::drive::DRIVER, path);
        0
    } else {
        let other: Vec<Vec<String>> = match std::fs::read_to_string(path).ok().and_then(|s| serde_json::from_str(&s).ok()) {
            Some(v) => v,
            None => {
                println!("enginediff: cannot read {}", path);
                return 2;
            }
        };
        if other.len() != all.len() {
            println!("enginediff: scenario lists differ in length ({} vs {})", other.len(), all.len());
            return 2;
        }
        let mut events = 0;
        for (i, (a, b)) in all.iter().zip(other.iter()).enumerate() {
            events += a.len();
            if a != b {
                let k = a.iter().zip(b.iter()).position(|(x, y)| x != y).unwrap_or(a.len().min(b.len()));
                println!("enginediff: DISAGREEMENT on scenario {} at projected event {}:\n  here : {:?}\n  other: {:?}", i, k, a.get(k), b.get(k));
                return 2;
            }
        }
        println!("enginediff: {} deterministic scenarios, {} projected events: real-thread and schedule-controlled executions agree", all.len(), events);
        0
    }
}

// ------------------------------------------------------------------------------------------------

#[cfg(rs_store_verif)]
pub fn shim_diff() -> i32 {
    use crossbeam_real::channel as real;
    use proptest::prelude::*;
    use std::sync::Mutex;

    #[derive(Clone, Debug)]
    enum COp {
        Send(u8),
        TrySend(u8),
        Recv,
        TryRecv,
        Len,
        CloneS,
        CloneR,
        DropS,
        DropR,
    }
    let op = prop_oneof![
        any::<u8>().prop_map(COp::Send),
        any::<u8>().prop_map(COp::TrySend),
        Just(COp::Recv),
        Just(COp::TryRecv),
        Just(COp::Len),
        Just(COp::CloneS),
        Just(COp::CloneR),
        Just(COp::DropS),
        Just(COp::DropR),
    ];
    let strat = (1usize..=4, proptest::collection::vec(op, 0..60));
    let mut config = Config::default();
    config.cases = 3000;
    config.failure_persistence = None;
    config.rng_seed = RngSeed::Fixed(0x5A1);
    let mut runner = TestRunner::new(config);
    let ops_run = Arc::new(Mutex::new(0u64));
    let ops_run2 = ops_run.clone();
    let r = runner.run(&strat, move |(cap, ops)| {
        // real crate, directly; blocking calls are only issued when they cannot block
        let real_trace = {
            let (s, r) = real::bounded::<u8>(cap);
            let (mut ss, mut rs) = (vec![s], vec![r]);
            let mut len = 0usize;
            let mut t = vec![];
            for o in &ops {
                match o {
                    COp::Send(x) => {
                        if ss.is_empty() {
                            t.push("send:nosender".into());
                        } else if len < cap || rs.is_empty() {
                            let r = ss[0].send(*x);
                            if r.is_ok() {
                                len += 1;
                            }
                            t.push(format!("send:{:?}", r.map_err(|e| e.0)));
                        } else {
                            t.push("send:wouldblock".into());
                        }
                    }
                    COp::TrySend(x) => match ss.first() {
                        Some(s) => {
                            let r = s.try_send(*x);
                            if r.is_ok() {
                                len += 1;
                            }
                            t.push(format!("try_send:{}", match r { Ok(()) => "ok".to_string(), Err(real::TrySendError::Full(v)) => format!("full({})", v), Err(real::TrySendError::Disconnected(v)) => format!("disc({})", v) }));
                        }
                        None => t.push("try_send:nosender".into()),
                    },
                    COp::Recv => match rs.first() {
                        Some(r) if len > 0 || ss.is_empty() => {
                            let v = r.recv();
                            if v.is_ok() {
                                len -= 1;
                            }
                            t.push(format!("recv:{:?}", v.map_err(|_| ())));
                        }
                        Some(_) => t.push("recv:wouldblock".into()),
                        None => t.push("recv:noreceiver".into()),
                    },
                    COp::TryRecv => match rs.first() {
                        Some(r) => {
                            let v = r.try_recv();
                            if v.is_ok() {
                                len -= 1;
                            }
                            t.push(format!("try_recv:{}", match v { Ok(x) => format!("ok({})", x), Err(real::TryRecvError::Empty) => "empty".into(), Err(real::TryRecvError::Disconnected) => "disc".into() }));
                        }
                        None => t.push("try_recv:noreceiver".into()),
                    },
                    COp::Len => t.push(format!("len:{:?}/{:?}", ss.first().map(|s| s.len()), rs.first().map(|r| r.len()))),
                    COp::CloneS => {
                        if let Some(s) = ss.first().cloned() {
                            ss.push(s);
                        }
                    }
                    COp::CloneR => {
                        if let Some(r) = rs.first().cloned() {
                            rs.push(r);
                        }
                    }
                    COp::DropS => {
                        ss.pop();
                    }
                    COp::DropR => {
                        if rs.len() == 1 {
                            len = 0; // the real crate discards buffered messages with the last receiver
                        }
                        rs.pop();
                    }
                }
            }
            t
        };
        // stand-in, inside one task of the schedule-controlled runtime
        let out: Arc<Mutex<Vec<String>>> = Default::default();
        let out2 = out.clone();
        let ops2 = ops.clone();
        shuttle::check_random(
            move || {
                use crossbeam::channel as shim;
                let (s, r) = shim::bounded::<u8>(cap);
                let (mut ss, mut rs) = (vec![s], vec![r]);
                let mut len = 0usize;
                let mut t = vec![];
                for o in &ops2 {
                    match o {
                        COp::Send(x) => {
                            if ss.is_empty() {
                                t.push("send:nosender".into());
                            } else if len < cap || rs.is_empty() {
                                let r = ss[0].send(*x);
                                if r.is_ok() {
                                    len += 1;
                                }
                                t.push(format!("send:{:?}", r.map_err(|e| e.0)));
                            } else {
                                t.push("send:wouldblock".into());
                            }
                        }
                        COp::TrySend(x) => match ss.first() {
                            Some(s) => {
                                let r = s.try_send(*x);
                                if r.is_ok() {
                                    len += 1;
                                }
                                t.push(format!("try_send:{}", match r { Ok(()) => "ok".to_string(), Err(shim::TrySendError::Full(v)) => format!("full({})", v), Err(shim::TrySendError::Disconnected(v)) => format!("disc({})", v) }));
                            }
                            None => t.push("try_send:nosender".into()),
                        },
                        COp::Recv => match rs.first() {
                            Some(r) if len > 0 || ss.is_empty() => {
                                let v = r.recv();
                                if v.is_ok() {
                                    len -= 1;
                                }
                                t.push(format!("recv:{:?}", v.map_err(|_| ())));
                            }
                            Some(_) => t.push("recv:wouldblock".into()),
                            None => t.push("recv:noreceiver".into()),
                        },
                        COp::TryRecv => match rs.first() {
                            Some(r) => {
                                let v = r.try_recv();
                                if v.is_ok() {
                                    len -= 1;
                                }
                                t.push(format!("try_recv:{}", match v { Ok(x) => format!("ok({})", x), Err(shim::TryRecvError::Empty) => "empty".into(), Err(shim::TryRecvError::Disconnected) => "disc".into() }));
                            }
                            None => t.push("try_recv:noreceiver".into()),
                        },
                        COp::Len => t.push(format!("len:{:?}/{:?}", ss.first().map(|s| s.len()), rs.first().map(|r| r.len()))),
                        COp::CloneS => {
                            if let Some(s) = ss.first().cloned() {
                                ss.push(s);
                            }
                        }
                        COp::CloneR => {
                            if let Some(r) = rs.first().cloned() {
                                rs.push(r);
                            }
                        }
                        COp::DropS => {
                            ss.pop();
                        }
                        COp::DropR => {
                            if rs.len() == 1 {
                                len = 0;
                            }
                            rs.pop();
                        }
                    }
                }
                *out2.lock().unwrap() = t;
            },
            1,
        );
        let shim_trace = out.lock().unwrap().clone();
        *ops_run2.lock().unwrap() += ops.len() as u64;
        prop_assert_eq!(real_trace, shim_trace);
        Ok(())
    });
    match r {
        Ok(()) => {
            println!("shimdiff: 3000 generated operation sequences ({} operations, capacity 1-4): crossbeam stand-in agrees with the real crate on every return value", ops_run.lock().unwrap());
            0
        }
        Err(e) => {
            println!("shimdiff: DISAGREEMENT between the crossbeam stand-in and the real crate: {}", e);
            2
        }
    }
}

#[cfg(not(rs_store_verif))]
pub fn shim_diff() -> i32 {
    println!("shimdiff is only available in the schedule-controlled flavour");
    2
}
