//! Runtime abstraction: std threads/sync for driver R (guard off), shuttle for drivers S/F
//! (guard `rs_store_verif` on). Everything in the harness that can block or interleave goes
//! through here so that under S/F it is a scheduling point owned by the generated schedule.

#[cfg(not(rs_store_verif))]
mod imp {
    pub use std::sync::{Condvar, Mutex, MutexGuard};
    pub use std::thread::JoinHandle;

    pub const SCHED: bool = false;

    pub fn spawn_named<F: FnOnce() + Send + 'static>(name: String, f: F) -> JoinHandle<()> {
        std::thread::Builder::new().name(name).spawn(f).expect("spawn")
    }
    pub fn yield_now() {
        std::thread::yield_now();
    }
    pub fn sleep_us(us: u64) {
        if us == 0 {
            std::thread::yield_now();
        } else {
            std::thread::sleep(std::time::Duration::from_micros(us));
        }
    }
    /// (stable key of the current runtime thread, its name)
    pub fn current() -> (String, String) {
        let t = std::thread::current();
        (format!("{:?}", t.id()), t.name().unwrap_or("").to_string())
    }
}

#[cfg(rs_store_verif)]
mod imp {
    pub use shuttle::sync::{Condvar, Mutex, MutexGuard};
    pub use shuttle::thread::JoinHandle;

    pub const SCHED: bool = true;

    pub fn spawn_named<F: FnOnce() + Send + 'static>(name: String, f: F) -> JoinHandle<()> {
        shuttle::thread::Builder::new().name(name).spawn(f).expect("spawn")
    }
    pub fn yield_now() {
        shuttle::thread::yield_now();
    }
    pub fn sleep_us(_us: u64) {
        shuttle::thread::yield_now();
    }
    pub fn current() -> (String, String) {
        let t = shuttle::thread::current();
        (format!("{:?}", t.id()), t.name().unwrap_or("").to_string())
    }
}

pub use imp::*;

/// Lock that survives poisoning (a scripted panic must not take the harness down).
pub fn lock<T>(m: &Mutex<T>) -> MutexGuard<'_, T> {
    match m.lock() {
        Ok(g) => g,
        Err(e) => e.into_inner(),
    }
}
