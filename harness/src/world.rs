//! Scripted components (reducers, middlewares, subscribers, selectors, effects) and the scenario
//! interpreter. Compiled unchanged for every driver; only `rt` differs.
use crate::log::*;
use crate::rt;
use crate::scenario::*;
use rs_store::{
    BackpressurePolicy, DispatchOp, Dispatcher, DroppableStore, Effect, Middleware, MiddlewareOp,
    Reducer, Selector, Store, StoreBuilder, StoreError, StoreImpl, Subscriber, Subscription,
};
use std::collections::HashMap;
use std::sync::Arc;

pub type TStore = StoreImpl<St, Act>;
pub const SCRIPTED_PANIC: &str = "verif-scripted-panic";

fn slock<T>(m: &std::sync::Mutex<T>) -> std::sync::MutexGuard<'_, T> {
    match m.lock() {
        Ok(g) => g,
        Err(e) => e.into_inner(),
    }
}

type SubSlot = Arc<rt::Mutex<Option<Box<dyn Subscription>>>>;

pub struct World {
    pub ctx: Ctx,
    // std mutexes below: critical sections are a few instructions and contain no scheduling point
    stores: std::sync::Mutex<Vec<Option<Arc<TStore>>>>,
    droppables: std::sync::Mutex<Vec<Option<DroppableStore<St, Act>>>>,
    subscriptions: std::sync::Mutex<HashMap<(StoreIx, SubId), SubSlot>>,
    sub_objs: std::sync::Mutex<HashMap<SubId, Arc<SSub>>>,
    eff_lists: std::sync::Mutex<HashMap<ActId, Vec<EffId>>>,
    iters: std::sync::Mutex<HashMap<u32, Box<dyn Iterator<Item = (St, Act)> + Send>>>,
    sel_objs: std::sync::Mutex<HashMap<SubId, Arc<rs_store::SelectorSubscriber<St, Act, SSel, u64>>>>,
    /// (subscriber, entry) pairs of `SubSpec::on_notify_ops` that have already run
    notify_ops_done: std::sync::Mutex<std::collections::HashSet<(SubId, usize)>>,
    mw_objs: std::sync::Mutex<HashMap<CompId, Arc<dyn Middleware<St, Act> + Send + Sync>>>,
    #[allow(clippy::type_complexity)]
    fn_objs: std::sync::Mutex<HashMap<SubId, Arc<rs_store::FnSubscriber<Box<dyn Fn(&St, &Act) + Send + Sync>, St, Act>>>>,
}

impl World {
    pub fn new(scn: Arc<Scenario>, log: Arc<std::sync::Mutex<LogInner>>) -> Arc<World> {
        let n = scn.stores.len();
        Arc::new(World {
            ctx: Ctx::new(scn, log),
            stores: std::sync::Mutex::new(vec![None; n]),
            droppables: std::sync::Mutex::new((0..n).map(|_| None).collect()),
            subscriptions: Default::default(),
            sub_objs: Default::default(),
            eff_lists: Default::default(),
            iters: Default::default(),
            sel_objs: Default::default(),
            notify_ops_done: Default::default(),
            mw_objs: Default::default(),
            fn_objs: Default::default(),
        })
    }
    pub fn store(&self, ix: StoreIx) -> Option<Arc<TStore>> {
        slock(&self.stores).get(ix).cloned().flatten()
    }
    fn scn(&self) -> &Scenario {
        &self.ctx.scn
    }
}

fn pol(p: Pol) -> BackpressurePolicy {
    match p {
        Pol::Block => BackpressurePolicy::BlockOnFull,
        Pol::DropOldest => BackpressurePolicy::DropOldest,
        Pol::DropLatest => BackpressurePolicy::DropLatest,
    }
}

// ---------------------------------------------------------------- reducers

pub struct SReducer {
    w: Arc<World>,
    comp: CompId,
}
impl Reducer<St, Act> for SReducer {
    fn reduce(&self, st: &St, a: &Act) -> DispatchOp<St, Act> {
        let w = &self.w;
        let sc = &w.scn().actions[a.id as usize];
        let spec = w.scn().comp(self.comp);
        w.ctx.ev(Ev::RedIn { comp: self.comp, act: a.id, st: *st });
        if let Some(g) = spec.gate {
            w.ctx.gate(g).pass();
        }
        if let Some((_, s)) = sc.red_stall.iter().find(|(c, _)| *c == self.comp) {
            w.ctx.stall(*s);
        }
        if let Some(other) = spec.pokes {
            let _ = w.store(other).map(|s| s.get_state());
        }
        let out = mix(st, self.comp, a.id, sc.sel);
        let keep = sc.keeps(self.comp);
        let effspec = sc.effect_of(self.comp).cloned();
        if let Some(e) = &effspec {
            slock(&w.eff_lists).entry(a.id).or_default().push(e.id);
        }
        w.ctx.ev(Ev::RedOut { comp: self.comp, act: a.id, out, keep, eff: effspec.as_ref().map(|e| e.id) });
        let eff = effspec.map(|e| make_effect(w, &e));
        if keep {
            DispatchOp::Keep(out, eff)
        } else {
            DispatchOp::Dispatch(out, eff)
        }
    }
}

// ---------------------------------------------------------------- effects

fn thunk_body(w: Arc<World>, e: EffSpec) -> Box<dyn FnOnce(Box<dyn Dispatcher<Act>>) + Send> {
    Box::new(move |d: Box<dyn Dispatcher<Act>>| {
        w.ctx.ev(Ev::Eff { eff: e.id });
        w.ctx.stall(e.stall);
        if let EffKind::Thunk(list) = &e.kind {
            for a in list {
                let from = Nest::Thunk(e.id);
                w.ctx.ev(Ev::NInv { from: from.clone(), act: *a });
                let ok = d.dispatch(Act { id: *a }).is_ok();
                w.ctx.ev(Ev::NRet { from, act: *a, ok });
                // a thunk goes on working after a dispatch has returned (and keeps the
                // dispatcher it was handed until it ends)
                w.ctx.stall(e.stall);
            }
        }
        for (i, op) in e.ops.iter().enumerate() {
            exec_op(&w, 1000 + e.id, i as u32, op);
        }
        drop(d);
        if e.panics {
            panic!("{}", SCRIPTED_PANIC);
        }
        w.ctx.ev(Ev::EffEnd { eff: e.id });
    })
}

fn task_body(w: Arc<World>, e: EffSpec) -> Box<dyn FnOnce() + Send> {
    Box::new(move || {
        w.ctx.ev(Ev::Eff { eff: e.id });
        w.ctx.stall(e.stall);
        for (i, op) in e.ops.iter().enumerate() {
            exec_op(&w, 1000 + e.id, i as u32, op);
        }
        if e.panics {
            panic!("{}", SCRIPTED_PANIC);
        }
        w.ctx.ev(Ev::EffEnd { eff: e.id });
    })
}

fn make_effect(w: &Arc<World>, e: &EffSpec) -> Effect<Act> {
    match &e.kind {
        EffKind::Action(a) => Effect::Action(Act { id: *a }),
        EffKind::Task => Effect::Task(task_body(w.clone(), e.clone())),
        EffKind::Thunk(_) => Effect::Thunk(thunk_body(w.clone(), e.clone())),
        EffKind::Function => {
            let w = w.clone();
            let e2 = e.clone();
            Effect::Function(
                // the key is a label the store does not interpret; several effects (of one store
                // or of several) carry the same one
                format!("f{}", e.id % 2),
                Box::new(move || {
                    w.ctx.ev(Ev::Eff { eff: e2.id });
                    w.ctx.stall(e2.stall);
                    for (i, op) in e2.ops.iter().enumerate() {
                        exec_op(&w, 1000 + e2.id, i as u32, op);
                    }
                    if e2.panics {
                        panic!("{}", SCRIPTED_PANIC);
                    }
                    w.ctx.ev(Ev::EffEnd { eff: e2.id });
                    Ok(Box::new(e2.id) as Box<dyn std::any::Any + Send>)
                }),
            )
        }
    }
}

// ---------------------------------------------------------------- middleware

pub struct SMw {
    w: Arc<World>,
    comp: CompId,
}
impl SMw {
    fn hook(
        &self,
        hook: Hook,
        a: &Act,
        st: &St,
        effects: Option<&mut Vec<Effect<Act>>>,
        d: Arc<dyn Dispatcher<Act>>,
    ) -> Result<MiddlewareOp, StoreError> {
        let w = &self.w;
        let sc = &w.scn().actions[a.id as usize];
        let spec = w.scn().comp(self.comp);
        let neff = effects.as_ref().map(|e| e.len() as u32).unwrap_or(0);
        w.ctx.ev(Ev::MwIn { comp: self.comp, hook, act: a.id, st: *st, neff });
        if hook == Hook::BeforeReduce {
            if let Some(g) = spec.gate {
                w.ctx.gate(g).pass();
            }
        }
        if let Some(effects) = effects {
            let rm = sc.removed_by(self.comp);
            if !rm.is_empty() {
                let mut ids = slock(&w.eff_lists).get(&a.id).cloned().unwrap_or_default();
                // positions are identified through the side list kept by the scripted reducers;
                // if the two ever disagree in length nothing is removed (the oracle sees `neff`)
                if ids.len() == effects.len() {
                    let mut i = 0;
                    while i < ids.len() {
                        if rm.contains(&ids[i]) {
                            ids.remove(i);
                            drop(effects.remove(i));
                        } else {
                            i += 1;
                        }
                    }
                    slock(&w.eff_lists).insert(a.id, ids);
                }
            }
            for e in sc.added_by(self.comp) {
                effects.push(make_effect(w, e));
                slock(&w.eff_lists).entry(a.id).or_default().push(e.id);
            }
        }
        for (c, h, follow) in sc.mw_dispatch.iter() {
            if *c == self.comp && *h == hook {
                let from = Nest::Mw(self.comp, hook, a.id);
                w.ctx.ev(Ev::NInv { from: from.clone(), act: *follow });
                let ok = d.dispatch(Act { id: *follow }).is_ok();
                w.ctx.ev(Ev::NRet { from, act: *follow, ok });
            }
        }
        drop(d);
        if let Some(other) = spec.pokes {
            let _ = w.store(other).map(|s| s.get_state());
        }
        let read = if spec.reads_state {
            w.store(sc.store).map(|s| s.get_state())
        } else {
            None
        };
        let verdict = sc.verdict(self.comp, hook);
        w.ctx.ev(Ev::MwOut { comp: self.comp, hook, act: a.id, verdict, read });
        match verdict {
            Verdict::Continue => Ok(MiddlewareOp::ContinueAction),
            Verdict::Done => Ok(MiddlewareOp::DoneAction),
            Verdict::Break => Ok(MiddlewareOp::BreakChain),
            // whatever the variant, an Err is an Err (a hook may well forward one it got itself)
            Verdict::Err => Err(match (a.id + self.comp) % 4 {
                0 => StoreError::DispatchError("verif-scripted-err".into()),
                1 => StoreError::ReducerError("verif-scripted-err".into()),
                _ => StoreError::MiddlewareError("verif-scripted-err".into()),
            }),
        }
    }
}
impl Middleware<St, Act> for SMw {
    fn before_reduce(
        &self,
        action: &Act,
        state: &St,
        dispatcher: Arc<dyn Dispatcher<Act>>,
    ) -> Result<MiddlewareOp, StoreError> {
        self.hook(Hook::BeforeReduce, action, state, None, dispatcher)
    }
    fn before_effect(
        &self,
        action: &Act,
        state: &St,
        effects: &mut Vec<Effect<Act>>,
        dispatcher: Arc<dyn Dispatcher<Act>>,
    ) -> Result<MiddlewareOp, StoreError> {
        self.hook(Hook::BeforeEffect, action, state, Some(effects), dispatcher)
    }
    fn before_dispatch(
        &self,
        action: &Act,
        state: &St,
        dispatcher: Arc<dyn Dispatcher<Act>>,
    ) -> Result<MiddlewareOp, StoreError> {
        self.hook(Hook::BeforeDispatch, action, state, None, dispatcher)
    }
    fn on_error(&self, _error: StoreError) {
        self.w.ctx.ev(Ev::MwErr { comp: self.comp });
    }
}

// ---------------------------------------------------------------- subscribers

pub struct SSub {
    w: Arc<World>,
    sub: SubId,
    chained: std::sync::atomic::AtomicBool,
}
impl Subscriber<St, Act> for SSub {
    fn on_notify(&self, st: &St, a: &Act) {
        let w = &self.w;
        let spec = w.scn().sub(self.sub);
        w.ctx.ev(Ev::NotIn { sub: self.sub, act: a.id, st: *st });
        if spec.forwards {
            if let Some(f) = w.scn().actions[a.id as usize].forward {
                let target = w.scn().actions[f as usize].store;
                if let Some(s) = w.store(target) {
                    let from = Nest::Sub(self.sub, a.id);
                    w.ctx.ev(Ev::NInv { from: from.clone(), act: f });
                    let ok = StoreImpl::dispatch(&s, Act { id: f }).is_ok();
                    w.ctx.ev(Ev::NRet { from, act: f, ok });
                }
            }
        }
        run_notify_ops(w, self.sub, a.id);
        if let Some(g) = spec.gate {
            w.ctx.gate(g).pass();
        }
        w.ctx.stall(spec.stall);
        let read = if spec.reads_state {
            let store = w.scn().actions[a.id as usize].store;
            w.store(store).map(|s| s.get_state())
        } else {
            None
        };
        w.ctx.ev(Ev::NotOut { sub: self.sub, act: a.id, read });
        if let Some(g) = w.scn().actions[a.id as usize].signal {
            w.ctx.gate(g).signal();
        }
    }
    fn on_unsubscribe(&self) {
        self.w.ctx.ev(Ev::Unsub { sub: self.sub });
        let spec = self.w.scn().sub(self.sub);
        if !spec.on_unsub_ops.is_empty() && !self.chained.swap(true, std::sync::atomic::Ordering::SeqCst) {
            for (i, op) in spec.on_unsub_ops.iter().enumerate() {
                exec_op(&self.w, 2000 + self.sub, i as u32, op);
            }
        }
    }
}

/// `SubSpec::on_notify_ops`: operations a subscriber performs from inside its callback.
fn run_notify_ops(w: &Arc<World>, sub: SubId, act: ActId) {
    let spec = w.scn().sub(sub);
    for (k, (a, ops)) in spec.on_notify_ops.iter().enumerate() {
        if *a == act && slock(&w.notify_ops_done).insert((sub, k)) {
            for (i, op) in ops.iter().enumerate() {
                exec_op(w, 3000 + sub, (16 * k + i) as u32, op);
            }
        }
    }
}

pub struct SSel {
    w: Arc<World>,
    sub: SubId,
    fresh: bool,
}
impl Selector<St, u64> for SSel {
    fn select(&self, st: &St) -> u64 {
        self.w.ctx.ev(Ev::SelIn { sub: self.sub, st: *st });
        if self.fresh {
            st.h
        } else {
            st.sel as u64
        }
    }
}

// ---------------------------------------------------------------- building stores

fn mk_red(w: &Arc<World>, c: CompId) -> Box<dyn Reducer<St, Act> + Send + Sync> {
    let inner = SReducer { w: w.clone(), comp: c };
    if c % 2 == 1 {
        // every other reducer goes through the crate's `FnReducer` wrapper (closure -> Reducer)
        Box::new(rs_store::FnReducer::from(move |st: &St, a: &Act| inner.reduce(st, a)))
    } else {
        Box::new(inner)
    }
}
/// One instance per component id: a builder sequence that names the same middleware twice hands
/// the *same* `Arc` to the store twice (C17: "add_* appends", also for an instance already there).
fn mk_mw(w: &Arc<World>, c: CompId) -> Arc<dyn Middleware<St, Act> + Send + Sync> {
    slock(&w.mw_objs).entry(c).or_insert_with(|| Arc::new(SMw { w: w.clone(), comp: c })).clone()
}

fn build_store(w: &Arc<World>, ix: StoreIx) -> Result<Arc<TStore>, StoreError> {
    let spec = &w.scn().stores[ix];
    let init = initial_state(ix);
    let simple = spec.reducers.len() == 1 && spec.middlewares.is_empty() && spec.capacity == rs_store::DEFAULT_CAPACITY && spec.policy == Pol::Block;
    match &spec.ctor {
        Ctor::Simple if simple && spec.name == rs_store::DEFAULT_STORE_NAME => Ok(StoreImpl::new_with_reducer(init, mk_red(w, spec.reducers[0]))),
        Ctor::Simple if spec.reducers.is_empty() && spec.middlewares.is_empty() && spec.capacity == rs_store::DEFAULT_CAPACITY && spec.policy == Pol::Block && spec.name == rs_store::DEFAULT_STORE_NAME => {
            Ok(StoreImpl::new(init))
        }
        Ctor::Simple if simple => StoreImpl::new_with_name(init, mk_red(w, spec.reducers[0]), spec.name.clone()),
        Ctor::NewWith | Ctor::Simple => StoreImpl::new_with(
            init,
            spec.reducers.iter().map(|c| mk_red(w, *c)).collect(),
            spec.name.clone(),
            spec.capacity,
            pol(spec.policy),
            spec.middlewares.iter().map(|c| mk_mw(w, *c)).collect(),
        ),
        Ctor::Builder | Ctor::BuilderWithReducer => {
            let mut rest = spec.reducers.as_slice();
            let mut b = if matches!(spec.ctor, Ctor::BuilderWithReducer) && !rest.is_empty() {
                let b = StoreBuilder::new_with_reducer(init, mk_red(w, rest[0]));
                rest = &rest[1..];
                b
            } else {
                StoreBuilder::new(init)
            };
            b = b.with_name(spec.name.clone());
            if spec.reducers.is_empty() {
                b = b.without_reducer();
            }
            for c in rest {
                b = b.add_reducer(mk_red(w, *c));
            }
            b = b.with_capacity_fixed(spec.capacity, spec.reducers.is_empty());
            b = b.with_policy(pol(spec.policy));
            for c in &spec.middlewares {
                b = b.add_middleware(mk_mw(w, *c));
            }
            b.build()
        }
        Ctor::Calls { first, calls } => {
            let mut b = match first {
                Some(c) => StoreBuilder::new_with_reducer(init, mk_red(w, *c)),
                None => StoreBuilder::new(init),
            };
            for c in calls {
                b = match c {
                    BCall::WithName(n) => b.with_name(n.clone()),
                    BCall::WithReducer(c) => b.with_reducer(mk_red(w, *c)),
                    BCall::WithReducers(v) => b.with_reducers(v.iter().map(|c| mk_red(w, *c)).collect()),
                    BCall::AddReducer(c) => b.add_reducer(mk_red(w, *c)),
                    BCall::WithoutReducer => b.without_reducer(),
                    BCall::WithCapacity(n) => b.with_capacity(*n),
                    BCall::WithPolicy(p) => b.with_policy(pol(*p)),
                    BCall::WithMiddleware(c) => b.with_middleware(mk_mw(w, *c)),
                    BCall::WithMiddlewares(v) => b.with_middlewares(v.iter().map(|c| mk_mw(w, *c)).collect()),
                    BCall::AddMiddleware(c) => b.add_middleware(mk_mw(w, *c)),
                };
            }
            b.build()
        }
    }
}

/// `with_capacity` in the canonical builder path. The canonical path must not depend on finding
/// F1 (with_capacity clearing without_reducer), so the capacity is set *before* without_reducer
/// would matter: we call with_capacity and then re-assert without_reducer when needed.
trait CapFixed {
    fn with_capacity_fixed(self, cap: usize, without: bool) -> Self;
}
impl CapFixed for StoreBuilder<St, Act> {
    fn with_capacity_fixed(self, cap: usize, without: bool) -> Self {
        let b = self.with_capacity(cap);
        if without {
            b.without_reducer()
        } else {
            b
        }
    }
}

// ---------------------------------------------------------------- interpreter

fn exec_op(w: &Arc<World>, th: u32, ix: u32, op: &Op) {
    w.ctx.ev(Ev::Inv { th, ix });
    let t0 = if rt::SCHED { None } else { Some(std::time::Instant::now()) };
    let res = do_op(w, op);
    if let Some(t0) = t0 {
        let ms = t0.elapsed().as_millis() as u64;
        if ms >= 2500 {
            w.ctx.note_slow(th, ix, ms);
        }
    }
    w.ctx.ev(Ev::Ret { th, ix, res });
}

fn okerr<T, E>(r: Result<T, E>) -> Res {
    if r.is_ok() {
        Res::Ok
    } else {
        Res::Err
    }
}

fn do_op(w: &Arc<World>, op: &Op) -> Res {
    match op {
        Op::Dispatch { act, via } => {
            let store = w.scn().actions[*act as usize].store;
            let Some(s) = w.store(store) else { return Res::Skipped };
            let a = Act { id: *act };
            okerr(match via {
                Via::Inherent => StoreImpl::dispatch(&s, a),
                Via::StoreTrait => <TStore as Store<St, Act>>::dispatch(&*s, a),
                Via::Dispatcher => <Arc<TStore> as Dispatcher<Act>>::dispatch(&s, a),
            })
        }
        Op::DispatchThunk { store, eff } => {
            let Some(s) = w.store(*store) else { return Res::Skipped };
            <Arc<TStore> as Dispatcher<Act>>::dispatch_thunk(&s, thunk_body(w.clone(), eff.clone()));
            Res::Unit
        }
        Op::DispatchTask { store, eff } => {
            let Some(s) = w.store(*store) else { return Res::Skipped };
            <Arc<TStore> as Dispatcher<Act>>::dispatch_task(&s, task_body(w.clone(), eff.clone()));
            Res::Unit
        }
        Op::GetState { store } => match w.store(*store) {
            // through the `Store` trait, whose implementation forwards to the inherent method: both are covered
            Some(s) => Res::State(<TStore as Store<St, Act>>::get_state(&*s)),
            None => Res::Skipped,
        },
        Op::GetMetrics { store } => match w.store(*store) {
            Some(s) => {
                let m = s.get_metrics();
                Res::Metrics([
                    m.action_received,
                    m.action_dropped,
                    m.action_reduced,
                    m.effect_issued,
                    m.middleware_executed,
                    m.state_notified,
                    m.subscriber_notified,
                    m.error_occurred,
                ])
            }
            None => Res::Skipped,
        },
        Op::Subscribe { store, sub } => {
            let Some(s) = w.store(*store) else { return Res::Skipped };
            if slock(&w.subscriptions).contains_key(&(*store, *sub)) {
                return Res::Skipped;
            }
            let spec = w.scn().sub(*sub).clone();
            let subscription: Box<dyn Subscription> = match spec.kind {
                SubKind::Direct => {
                    let inner = slock(&w.sub_objs)
                        .entry(*sub)
                        .or_insert_with(|| Arc::new(SSub { w: w.clone(), sub: *sub, chained: Default::default() }))
                        .clone();
                    let obj: Arc<dyn Subscriber<St, Act> + Send + Sync> = if spec.fn_wrapped {
                        slock(&w.fn_objs)
                            .entry(*sub)
                            .or_insert_with(|| {
                                let f: Box<dyn Fn(&St, &Act) + Send + Sync> = Box::new(move |st: &St, a: &Act| inner.on_notify(st, a));
                                Arc::new(rs_store::FnSubscriber::from(f))
                            })
                            .clone()
                    } else {
                        inner
                    };
                    if spec.via_trait {
                        <TStore as Store<St, Act>>::add_subscriber(&*s, obj)
                    } else {
                        s.add_subscriber(obj)
                    }
                }
                SubKind::Selector { fresh } => {
                    let w2 = w.clone();
                    let id = *sub;
                    s.subscribe_with_selector(SSel { w: w.clone(), sub: id, fresh }, move |val: u64, a: Act| {
                        w2.ctx.ev(Ev::SelCb { sub: id, val, act: a.id });
                        run_notify_ops(&w2, id, a.id);
                    })
                }
                SubKind::SelectorObj { fresh } => {
                    let id = *sub;
                    let obj = slock(&w.sel_objs)
                        .entry(id)
                        .or_insert_with(|| {
                            let w2 = w.clone();
                            Arc::new(rs_store::SelectorSubscriber::new(SSel { w: w.clone(), sub: id, fresh }, move |val: u64, a: Act| {
                                w2.ctx.ev(Ev::SelCb { sub: id, val, act: a.id });
                                run_notify_ops(&w2, id, a.id);
                            }))
                        })
                        .clone();
                    s.add_subscriber(obj)
                }
                SubKind::Channeled { cap, pol: p, default_ctor } => {
                    let obj = Box::new(SSub { w: w.clone(), sub: *sub, chained: Default::default() });
                    let r = match (default_ctor, spec.via_trait) {
                        (true, false) => s.subscribed(obj),
                        (true, true) => <TStore as Store<St, Act>>::subscribed(&*s, obj),
                        (false, false) => s.subscribed_with(cap, pol(p), obj),
                        (false, true) => <TStore as Store<St, Act>>::subscribed_with(&*s, cap, pol(p), obj),
                    };
                    match r {
                        Ok(x) => x,
                        Err(_) => return Res::Err,
                    }
                }
            };
            slock(&w.subscriptions).insert((*store, *sub), Arc::new(rt::Mutex::new(Some(subscription))));
            Res::Ok
        }
        Op::ForgetSubscription { store, sub } => {
            let slot = slock(&w.subscriptions).remove(&(*store, *sub));
            match slot {
                Some(slot) => {
                    let handle = rt::lock(&slot).take();
                    drop(handle);
                    Res::Ok
                }
                None => Res::Skipped,
            }
        }
        Op::Unsubscribe { store, sub } => {
            let slot = slock(&w.subscriptions).get(&(*store, *sub)).cloned();
            match slot {
                Some(slot) => {
                    let g = rt::lock(&slot);
                    match g.as_ref() {
                        Some(s) => {
                            s.unsubscribe();
                            Res::Ok
                        }
                        // the handle was dropped meanwhile (ForgetSubscription): nothing was called
                        None => Res::Skipped,
                    }
                }
                None => Res::Skipped,
            }
        }
        Op::Iter { store, it, consume, ready } => {
            let Some(s) = w.store(*store) else { return Res::Skipped };
            let mut iter = s.iter();
            drop(s);
            w.ctx.ev(Ev::ItNew { it: *it });
            if let Some(g) = ready {
                w.ctx.gate(*g).signal();
            }
            let mut got = 0u32;
            loop {
                if let Consume::TakeThenDrop(k) = consume {
                    if got >= *k {
                        w.ctx.ev(Ev::ItDropIn { it: *it });
                        drop(iter);
                        w.ctx.ev(Ev::ItDropOut { it: *it });
                        return Res::Unit;
                    }
                }
                match iter.next() {
                    Some((st, a)) => {
                        got += 1;
                        w.ctx.ev(Ev::It { it: *it, act: a.id, st });
                    }
                    None => {
                        w.ctx.ev(Ev::ItNone { it: *it, nth: 0 });
                        for nth in 1..=2 {
                            if iter.next().is_none() {
                                w.ctx.ev(Ev::ItNone { it: *it, nth });
                            }
                        }
                        w.ctx.ev(Ev::ItDropIn { it: *it });
                        drop(iter);
                        w.ctx.ev(Ev::ItDropOut { it: *it });
                        return Res::Unit;
                    }
                }
            }
        }
        Op::IterOpen { store, it, ready } => {
            let Some(s) = w.store(*store) else { return Res::Skipped };
            let iter = s.iter();
            drop(s);
            slock(&w.iters).insert(*it, Box::new(iter));
            w.ctx.ev(Ev::ItNew { it: *it });
            if let Some(g) = ready {
                w.ctx.gate(*g).signal();
            }
            Res::Unit
        }
        Op::IterTake { it, .. } | Op::IterDrain { it } => {
            let k = match op {
                Op::IterTake { k, .. } => *k,
                _ => u32::MAX,
            };
            let Some(mut iter) = slock(&w.iters).remove(it) else { return Res::Skipped };
            let mut got = 0;
            while got < k {
                match iter.next() {
                    Some((st, a)) => {
                        got += 1;
                        w.ctx.ev(Ev::It { it: *it, act: a.id, st });
                    }
                    None => {
                        w.ctx.ev(Ev::ItNone { it: *it, nth: 0 });
                        for nth in 1..=2 {
                            if iter.next().is_none() {
                                w.ctx.ev(Ev::ItNone { it: *it, nth });
                            }
                        }
                        w.ctx.ev(Ev::ItDropIn { it: *it });
                        drop(iter);
                        w.ctx.ev(Ev::ItDropOut { it: *it });
                        return Res::Unit;
                    }
                }
            }
            slock(&w.iters).insert(*it, iter);
            Res::Unit
        }
        Op::IterClose { it } => {
            let Some(iter) = slock(&w.iters).remove(it) else { return Res::Skipped };
            w.ctx.ev(Ev::ItDropIn { it: *it });
            drop(iter);
            w.ctx.ev(Ev::ItDropOut { it: *it });
            Res::Unit
        }
        Op::AddReducer { store, comp } => {
            let Some(s) = w.store(*store) else { return Res::Skipped };
            s.add_reducer(mk_red(w, *comp));
            Res::Unit
        }
        Op::AddMiddleware { store, comp } => {
            let Some(s) = w.store(*store) else { return Res::Skipped };
            s.add_middleware(mk_mw(w, *comp));
            Res::Unit
        }
        Op::Close { store } => {
            let Some(s) = w.store(*store) else { return Res::Skipped };
            s.close();
            Res::Unit
        }
        Op::Stop { store, via_trait } => {
            let Some(s) = w.store(*store) else { return Res::Skipped };
            if *via_trait {
                <TStore as Store<St, Act>>::stop(&*s);
            } else {
                s.stop();
            }
            Res::Unit
        }
        Op::DropDroppable { store } => {
            let d = slock(&w.droppables).get_mut(*store).and_then(|d| d.take());
            match d {
                Some(d) => {
                    drop(d);
                    Res::Unit
                }
                None => Res::Skipped,
            }
        }
        Op::GateRelease { gate, n } => {
            w.ctx.gate(*gate).release(*n);
            Res::Unit
        }
        Op::GateAwait { gate, entered } => {
            w.ctx.gate(*gate).await_entered(*entered);
            Res::Unit
        }
        Op::GateOpen { gate } => {
            w.ctx.gate(*gate).open();
            Res::Unit
        }
        Op::GateSignal { gate } => {
            w.ctx.gate(*gate).signal();
            Res::Unit
        }
        Op::Stall(s) => {
            w.ctx.stall(*s);
            Res::Unit
        }
    }
}

/// Run one scenario to completion on the current runtime. Must be called from inside the runtime
/// (an OS thread for R, a shuttle execution for S/F). Everything created here is dropped here.
pub fn run_case(scn: Arc<Scenario>, log: Arc<std::sync::Mutex<LogInner>>) {
    let w = World::new(scn.clone(), log);
    for ix in 0..scn.stores.len() {
        match build_store(&w, ix) {
            Ok(s) => {
                if scn.stores[ix].droppable {
                    let d = DroppableStore::new(s);
                    let inner: Arc<TStore> = (*d).clone();
                    slock(&w.stores)[ix] = Some(inner);
                    slock(&w.droppables)[ix] = Some(d);
                } else {
                    slock(&w.stores)[ix] = Some(s);
                }
                w.ctx.ev(Ev::Built { store: ix as u32, ok: true });
            }
            Err(_) => {
                w.ctx.ev(Ev::Built { store: ix as u32, ok: false });
                // nothing will ever pass a gate of a store that does not exist
                for g in &w.ctx.gates {
                    g.open();
                }
            }
        }
    }
    for (i, op) in scn.prelude.iter().enumerate() {
        exec_op(&w, 0, i as u32, op);
    }
    let mut handles = Vec::new();
    for (t, ops) in scn.threads.iter().enumerate() {
        let w2 = w.clone();
        let ops = ops.clone();
        let th = t as u32 + 1;
        handles.push(rt::spawn_named(format!("client-{}", th), move || {
            for (i, op) in ops.iter().enumerate() {
                exec_op(&w2, th, i as u32, op);
            }
        }));
    }
    for h in handles {
        let _ = h.join();
    }
    let base = scn.prelude.len();
    for (i, op) in scn.epilogue.iter().enumerate() {
        exec_op(&w, 0, (base + i) as u32, op);
    }
    // clean-up: nothing may stay blocked, every store is stopped before it is dropped
    w.ctx.ev(Ev::CleanupIn);
    for g in &w.ctx.gates {
        g.open();
    }
    for ix in 0..scn.stores.len() {
        let d = slock(&w.droppables)[ix].take();
        drop(d);
        if let Some(s) = w.store(ix) {
            s.stop();
        }
    }
    w.ctx.ev(Ev::CleanupOut);
    let its: Vec<_> = slock(&w.iters).drain().collect();
    drop(its);
    // a channeled subscriber registered after its store had shut down still owns a delivery
    // thread: detach everything that is left so that no thread outlives the case
    let subs: Vec<_> = slock(&w.subscriptions).drain().collect();
    for (_, slot) in &subs {
        let g = rt::lock(slot);
        if let Some(s) = g.as_ref() {
            s.unsubscribe();
        }
    }
    drop(subs);
    slock(&w.sub_objs).clear();
    slock(&w.fn_objs).clear();
    slock(&w.sel_objs).clear();
    let stores: Vec<_> = slock(&w.stores).drain(..).collect();
    drop(stores);
}
