//! Executing one scenario on the flavour's runtime and returning its history.
use crate::log::*;
use crate::scenario::Scenario;
use crate::world;
use serde::{Deserialize, Serialize};
use std::sync::Arc;

#[derive(Clone, Debug, Serialize, Deserialize, PartialEq, Eq)]
pub enum Sched {
    /// driver R: the OS schedules
    Os,
    Random { seed: u64 },
    Pct { seed: u64, depth: usize },
    /// driver F: raw bytes choose among runnable tasks
    Bytes(Vec<u8>),
}

fn take_history(log: &Arc<std::sync::Mutex<LogInner>>, end: End) -> History {
    let l = match log.lock() {
        Ok(l) => l,
        Err(e) => e.into_inner(),
    };
    History { recs: l.recs.clone(), threads: l.threads.clone(), end, slow: l.slow.clone() }
}

#[cfg(not(rs_store_verif))]
pub fn execute(scn: &Arc<Scenario>, _sched: &Sched) -> History {
    use std::sync::mpsc;
    let log: Arc<std::sync::Mutex<LogInner>> = Default::default();
    let (tx, rx) = mpsc::channel::<Result<(), String>>();
    let scn2 = scn.clone();
    let log2 = log.clone();
    let _ = std::thread::Builder::new().name("coordinator".into()).spawn(move || {
        let r = std::panic::catch_unwind(std::panic::AssertUnwindSafe(|| world::run_case(scn2, log2)));
        let _ = tx.send(r.map_err(|e| panic_msg(&e)));
    });
    let watchdog = std::time::Duration::from_secs(
        std::env::var("VERIF_WATCHDOG_S").ok().and_then(|s| s.parse().ok()).unwrap_or(20),
    );
    match rx.recv_timeout(watchdog) {
        Ok(Ok(())) => take_history(&log, End::Completed),
        Ok(Err(m)) => take_history(&log, End::Crash(m)),
        Err(_) => take_history(&log, End::Hang),
    }
}

#[cfg(not(rs_store_verif))]
pub fn execute_many(scn: &Arc<Scenario>, scheds: &[Sched], stop_when: &mut dyn FnMut(&Sched, &History) -> bool) {
    for s in scheds {
        let h = execute(scn, s);
        if stop_when(s, &h) {
            return;
        }
    }
}

pub fn panic_msg(e: &Box<dyn std::any::Any + Send>) -> String {
    if let Some(s) = e.downcast_ref::<&str>() {
        s.to_string()
    } else if let Some(s) = e.downcast_ref::<String>() {
        s.clone()
    } else {
        "<non-string panic>".to_string()
    }
}

#[cfg(rs_store_verif)]
pub use sched_impl::*;

#[cfg(rs_store_verif)]
mod sched_impl {
    use super::*;
    use shuttle::scheduler::{PctScheduler, RandomScheduler, Schedule, Scheduler, Task, TaskId};
    use shuttle::{Config, FailurePersistence, MaxSteps, Runner};

    pub const STEP_BOUND: usize = 200_000;

    /// Byte-driven scheduler (driver F): `choice = byte mod |runnable|`; when the bytes are
    /// exhausted keep running the current task if it is runnable, else the lowest task id.
    pub struct ByteScheduler {
        bytes: Vec<u8>,
        pos: usize,
        started: bool,
    }
    impl ByteScheduler {
        pub fn new(bytes: Vec<u8>) -> Self {
            ByteScheduler { bytes, pos: 0, started: false }
        }
    }
    impl Scheduler for ByteScheduler {
        fn new_execution(&mut self) -> Option<Schedule> {
            if self.started {
                None
            } else {
                self.started = true;
                self.pos = 0;
                Some(Schedule::new(0))
            }
        }
        fn next_task(&mut self, runnable: &[&Task], current: Option<TaskId>, _is_yielding: bool) -> Option<TaskId> {
            if self.pos < self.bytes.len() {
                let b = self.bytes[self.pos] as usize;
                self.pos += 1;
                Some(runnable[b % runnable.len()].id())
            } else if let Some(c) = current.filter(|c| runnable.iter().any(|t| t.id() == *c)) {
                Some(c)
            } else {
                Some(runnable[0].id())
            }
        }
        fn next_u64(&mut self) -> u64 {
            0
        }
    }

    fn config() -> Config {
        let mut c = Config::new();
        c.failure_persistence = FailurePersistence::None;
        c.max_steps = MaxSteps::FailAfter(STEP_BOUND);
        c.silence_warnings = true;
        c
    }

    /// Runs several schedules of one scenario through one shuttle `Runner` (so coroutine stacks
    /// are reused); a new runner is started after an execution that ended in a runtime panic.
    struct Multi {
        list: Vec<Sched>,
        next: usize,
        stop: Arc<std::sync::atomic::AtomicBool>,
        cur: Option<Box<dyn Scheduler + Send>>,
    }
    impl Drop for Multi {
        fn drop(&mut self) {
            // dropped during an aborted execution: leak the inner scheduler instead of letting it
            // print its replay banner (the replay information is our own Sched value)
            if let Some(c) = self.cur.take() {
                std::mem::forget(c);
            }
        }
    }
    impl Scheduler for Multi {
        fn new_execution(&mut self) -> Option<Schedule> {
            // finish the previous inner scheduler quietly (its drop guard prints a "failing
            // seed" banner otherwise)
            if let Some(mut old) = self.cur.take() {
                let _ = old.new_execution();
            }
            if self.next >= self.list.len() || self.stop.load(std::sync::atomic::Ordering::SeqCst) {
                return None;
            }
            let mut inner: Box<dyn Scheduler + Send> = match &self.list[self.next] {
                Sched::Random { seed } => Box::new(RandomScheduler::new_from_seed(*seed, 1)),
                Sched::Pct { seed, depth } => Box::new(PctScheduler::new_from_seed(*seed, *depth, 1)),
                Sched::Bytes(b) => Box::new(ByteScheduler::new(b.clone())),
                Sched::Os => panic!("Sched::Os is not available in the schedule-controlled flavour"),
            };
            // the extra switch point after every unlock of the crate's mutexes: on for the
            // schedules with an even seed (a pure function of the Sched value, so replays agree)
            shim_rt::set_yield_after_unlock(match &self.list[self.next] {
                Sched::Random { seed } | Sched::Pct { seed, .. } => seed % 2 == 0,
                Sched::Bytes(b) => b.first().map(|x| x % 2 == 0).unwrap_or(true),
                Sched::Os => true,
            });
            self.next += 1;
            let r = inner.new_execution();
            self.cur = Some(inner);
            r
        }
        fn next_task(&mut self, runnable: &[&Task], current: Option<TaskId>, is_yielding: bool) -> Option<TaskId> {
            self.cur.as_mut().unwrap().next_task(runnable, current, is_yielding)
        }
        fn next_u64(&mut self) -> u64 {
            self.cur.as_mut().unwrap().next_u64()
        }
    }

    pub fn execute(scn: &Arc<Scenario>, sched: &Sched) -> History {
        let mut out = None;
        execute_many(scn, std::slice::from_ref(sched), &mut |_, h| {
            out = Some(h.clone());
            true
        });
        out.expect("one execution")
    }

    pub fn execute_many(scn: &Arc<Scenario>, scheds: &[Sched], stop_when: &mut dyn FnMut(&Sched, &History) -> bool) {
        let mut start = 0usize;
        while start < scheds.len() {
            let results: Arc<std::sync::Mutex<Vec<History>>> = Default::default();
            let current: Arc<std::sync::Mutex<Option<Arc<std::sync::Mutex<LogInner>>>>> = Default::default();
            let stop = Arc::new(std::sync::atomic::AtomicBool::new(false));
            let (scn2, results2, current2) = (scn.clone(), results.clone(), current.clone());
            let body = move || {
                let log: Arc<std::sync::Mutex<LogInner>> = Default::default();
                *current2.lock().unwrap() = Some(log.clone());
                world::run_case(scn2.clone(), log.clone());
                results2.lock().unwrap().push(take_history(&log, End::Completed));
            };
            let multi = Multi { list: scheds[start..].to_vec(), next: 0, stop: stop.clone(), cur: None };
            let r = std::panic::catch_unwind(std::panic::AssertUnwindSafe(|| {
                Runner::new(multi, config()).run(body);
            }));
            let done: Vec<History> = std::mem::take(&mut *results.lock().unwrap());
            let n = done.len();
            for (i, h) in done.into_iter().enumerate() {
                if stop_when(&scheds[start + i], &h) {
                    return;
                }
            }
            match r {
                Ok(()) => return,
                Err(e) => {
                    let m = panic_msg(&e);
                    let end = if m.starts_with("deadlock!") {
                        End::Deadlock(m)
                    } else if m.starts_with("exceeded max_steps") {
                        End::StepBound
                    } else {
                        End::Crash(m)
                    };
                    let log = current.lock().unwrap().clone().unwrap_or_default();
                    let h = take_history(&log, end);
                    if start + n < scheds.len() && stop_when(&scheds[start + n], &h) {
                        return;
                    }
                    start += n + 1;
                }
            }
        }
    }
}
