//! Scenario language: everything a generated case consists of (DESIGN.md section 5).
//! Plain data, serde-serialisable: a replay file is a `Scenario` plus a schedule description.
use serde::{Deserialize, Serialize};

pub type ActId = u32;
pub type CompId = u32; // reducers and middlewares share one id space
pub type SubId = u32;
pub type EffId = u32;
pub type GateId = u32;
pub type StoreIx = usize;

/// The store's State type. `h` is a hash chain over (reducer id, action id) applications, so any
/// lost, duplicated, reordered or stale-fed application changes every later value.
#[derive(Clone, Copy, Debug, PartialEq, Eq, Hash, Serialize, Deserialize, Default)]
pub struct St {
    pub h: u64,
    pub n: u32,
    pub sel: u8,
    pub last: u32,
}

/// The store's Action type. Behaviour of every scripted component for this action is looked up
/// in `Scenario::actions[id]`.
#[derive(Clone, Copy, Debug, PartialEq, Eq, Hash, Serialize, Deserialize)]
pub struct Act {
    pub id: ActId,
}

pub fn mix(st: &St, comp: CompId, act: ActId, sel: u8) -> St {
    let mut x = st.h ^ 0x9E37_79B9_7F4A_7C15u64.wrapping_mul(comp as u64 + 1);
    x = x.wrapping_add((act as u64 + 1).wrapping_mul(0xC2B2_AE3D_27D4_EB4F));
    x ^= x >> 29;
    x = x.wrapping_mul(0xBF58_476D_1CE4_E5B9);
    x ^= x >> 32;
    St { h: x, n: st.n + 1, sel, last: act }
}

pub fn initial_state(store: StoreIx) -> St {
    St { h: 0x1000 + store as u64, n: 0, sel: 0, last: u32::MAX }
}

#[derive(Clone, Copy, Debug, PartialEq, Eq, Hash, Serialize, Deserialize)]
pub enum Pol {
    Block,
    DropOldest,
    DropLatest,
}

#[derive(Clone, Copy, Debug, PartialEq, Eq, Hash, Serialize, Deserialize)]
pub enum Via {
    Inherent,
    StoreTrait,
    Dispatcher,
}

#[derive(Clone, Copy, Debug, PartialEq, Eq, Hash, Serialize, Deserialize, PartialOrd, Ord)]
pub enum Hook {
    BeforeReduce,
    BeforeEffect,
    BeforeDispatch,
}

#[derive(Clone, Copy, Debug, PartialEq, Eq, Hash, Serialize, Deserialize)]
pub enum Verdict {
    Continue,
    Done,
    Break,
    Err,
}

#[derive(Clone, Copy, Debug, PartialEq, Eq, Hash, Serialize, Deserialize)]
pub enum Stall {
    None,
    Yield,
    Us50,
    Us500,
    Ms2,
    /// a long absence in milliseconds (real threads only; a yield under the schedule-controlled runtime)
    Ms(u16),
}

#[derive(Clone, Debug, PartialEq, Eq, Hash, Serialize, Deserialize)]
pub enum EffKind {
    /// `Effect::Action(a)`
    Action(ActId),
    /// `Effect::Task`
    Task,
    /// `Effect::Thunk`: dispatches these follow-ups through the dispatcher it is handed
    Thunk(Vec<ActId>),
    /// `Effect::Function`
    Function,
}

#[derive(Clone, Debug, PartialEq, Eq, Hash, Serialize, Deserialize)]
pub struct EffSpec {
    pub id: EffId,
    pub kind: EffKind,
    pub panics: bool,
    pub stall: Stall,
    /// client-style operations executed inside the effect body (Task / Thunk / Function), logged
    /// like client ops with thread index 1000 + effect id
    #[serde(default)]
    pub ops: Vec<Op>,
}

/// Per-action script: how every scripted component reacts to this action.
#[derive(Clone, Debug, PartialEq, Eq, Hash, Serialize, Deserialize, Default)]
pub struct ActScript {
    pub store: StoreIx,
    pub sel: u8,
    /// reducers (by component id) that answer `Keep` for this action; all others answer `Dispatch`
    pub keep: Vec<CompId>,
    /// effect returned by reducer `comp` for this action
    pub effects: Vec<(CompId, EffSpec)>,
    /// non-Continue verdicts
    pub verdicts: Vec<(CompId, Hook, Verdict)>,
    /// effects removed by middleware `comp` in before_effect
    pub removes: Vec<(CompId, Vec<EffId>)>,
    /// follow-up dispatched by middleware `comp` in `hook` through the dispatcher it is handed
    pub mw_dispatch: Vec<(CompId, Hook, ActId)>,
    /// stall executed by reducer `comp` while reducing this action
    pub red_stall: Vec<(CompId, Stall)>,
    /// every scripted subscriber that is notified of this action bumps this gate's `entered`
    /// counter (non-blocking): lets a client wait until the action has been fully processed
    pub signal: Option<GateId>,
    /// see `SubSpec::forwards`
    #[serde(default)]
    pub forward: Option<ActId>,
    /// effects that middleware `comp` *appends* to the list in before_effect (after its removals)
    #[serde(default)]
    pub adds: Vec<(CompId, EffSpec)>,
}

impl ActScript {
    pub fn added_by(&self, comp: CompId) -> Vec<&EffSpec> {
        self.adds.iter().filter(|(c, _)| *c == comp).map(|x| &x.1).collect()
    }
    pub fn verdict(&self, comp: CompId, hook: Hook) -> Verdict {
        self.verdicts
            .iter()
            .find(|(c, h, _)| *c == comp && *h == hook)
            .map(|x| x.2)
            .unwrap_or(Verdict::Continue)
    }
    pub fn keeps(&self, comp: CompId) -> bool {
        self.keep.contains(&comp)
    }
    pub fn effect_of(&self, comp: CompId) -> Option<&EffSpec> {
        self.effects.iter().find(|(c, _)| *c == comp).map(|x| &x.1)
    }
    pub fn removed_by(&self, comp: CompId) -> &[EffId] {
        self.removes.iter().find(|(c, _)| *c == comp).map(|x| x.1.as_slice()).unwrap_or(&[])
    }
}

/// A reducer or middleware component (static part of its behaviour).
#[derive(Clone, Debug, PartialEq, Eq, Hash, Serialize, Deserialize)]
pub struct CompSpec {
    pub id: CompId,
    /// passes this gate on every call (reducers: at the start of `reduce`; the "stepper")
    pub gate: Option<GateId>,
    /// middleware only: calls `get_state()` inside every hook and logs the value (C08)
    pub reads_state: bool,
    /// calls `get_state()` of *that* store (another one) in every reducer call / hook and ignores
    /// the value: a read-only use of a second store from inside a callback (C19)
    #[serde(default)]
    pub pokes: Option<StoreIx>,
}

#[derive(Clone, Copy, Debug, PartialEq, Eq, Hash, Serialize, Deserialize)]
pub enum SubKind {
    Direct,
    /// `fresh`: the selected value is the state hash (changes with every action); otherwise `St::sel`
    Selector { fresh: bool },
    Channeled { cap: usize, pol: Pol, default_ctor: bool },
    /// one `SelectorSubscriber` object (created once) registered with `add_subscriber`, possibly on
    /// several stores
    SelectorObj { fresh: bool },
}

#[derive(Clone, Debug, PartialEq, Eq, Hash, Serialize, Deserialize)]
pub struct SubSpec {
    pub id: SubId,
    pub kind: SubKind,
    /// call `get_state()` inside on_notify and log it (C08)
    pub reads_state: bool,
    /// passes this gate in every on_notify
    pub gate: Option<GateId>,
    pub stall: Stall,
    /// register through the `Store` trait methods instead of the inherent ones
    #[serde(default)]
    pub via_trait: bool,
    /// when notified of an action whose script names a `forward` action, dispatch that action (it
    /// may belong to another store) from inside on_notify
    #[serde(default)]
    pub forwards: bool,
    /// client-style operations executed (once) from inside on_unsubscribe, logged with thread
    /// index 2000 + subscriber id - e.g. unsubscribing the same object from another store
    #[serde(default)]
    pub on_unsub_ops: Vec<Op>,
    /// client-style operations executed from inside the notification callback (direct: on_notify,
    /// selector: the on-change closure) when the callback runs for the named action; entry k, op i
    /// is logged with thread index 3000 + subscriber id and op index 16 * k + i. Never used on
    /// channeled subscribers (their callback runs on the thread that unsubscribe() joins).
    #[serde(default)]
    pub on_notify_ops: Vec<(ActId, Vec<Op>)>,
    /// direct subscribers only: registered as the crate's `FnSubscriber` wrapper around the
    /// scripted callback (one wrapper object per subscriber id). The wrapper has no
    /// `on_unsubscribe` of its own, so the release of such a subscriber is not observable.
    #[serde(default)]
    pub fn_wrapped: bool,
}

#[derive(Clone, Debug, PartialEq, Eq, Hash, Serialize, Deserialize)]
pub enum BCall {
    WithName(String),
    WithReducer(CompId),
    WithReducers(Vec<CompId>),
    AddReducer(CompId),
    WithoutReducer,
    WithCapacity(usize),
    WithPolicy(Pol),
    WithMiddleware(CompId),
    WithMiddlewares(Vec<CompId>),
    AddMiddleware(CompId),
}

#[derive(Clone, Debug, PartialEq, Eq, Hash, Serialize, Deserialize)]
pub enum Ctor {
    /// `StoreBuilder::new(state)` + the calls implied by the spec, in canonical order
    Builder,
    /// `StoreBuilder::new_with_reducer(state, reducers[0])` + the rest
    BuilderWithReducer,
    /// `StoreImpl::new_with(..)`
    NewWith,
    /// the convenience constructors `StoreImpl::new_with_reducer` / `new_with_name` when the spec
    /// is expressible with them (one reducer, no middleware, default capacity and policy), else
    /// `new_with`
    Simple,
    /// explicit builder call sequence (C17); `first` = constructor reducer for new_with_reducer
    Calls { first: Option<CompId>, calls: Vec<BCall> },
}

#[derive(Clone, Debug, PartialEq, Eq, Hash, Serialize, Deserialize)]
pub struct StoreSpec {
    pub name: String,
    pub capacity: usize,
    pub policy: Pol,
    pub reducers: Vec<CompId>,
    pub middlewares: Vec<CompId>,
    pub ctor: Ctor,
    /// wrapped in a `DroppableStore`; `Op::DropDroppable` drops the wrapper
    pub droppable: bool,
}

#[derive(Clone, Copy, Debug, PartialEq, Eq, Hash, Serialize, Deserialize)]
pub enum Consume {
    UntilNone,
    /// take up to k items, then drop the iterator
    TakeThenDrop(u32),
}

#[derive(Clone, Debug, PartialEq, Eq, Hash, Serialize, Deserialize)]
pub enum Op {
    Dispatch { act: ActId, via: Via },
    DispatchThunk { store: StoreIx, eff: EffSpec },
    DispatchTask { store: StoreIx, eff: EffSpec },
    GetState { store: StoreIx },
    GetMetrics { store: StoreIx },
    Subscribe { store: StoreIx, sub: SubId },
    Unsubscribe { store: StoreIx, sub: SubId },
    /// drop the `Subscription` handle without calling `unsubscribe()`: the subscription stays
    /// registered (the handle is only the means to end it)
    ForgetSubscription { store: StoreIx, sub: SubId },
    /// create an iterator, signal `ready` (if any), then consume it on this thread
    Iter { store: StoreIx, it: u32, consume: Consume, ready: Option<GateId> },
    /// split iterator API: the iterator stays open across other calls of the owning thread
    IterOpen { store: StoreIx, it: u32, ready: Option<GateId> },
    /// up to k items (ends early, with two more next() calls, if None comes first)
    IterTake { it: u32, k: u32 },
    IterDrain { it: u32 },
    /// drop the iterator if it is still open
    IterClose { it: u32 },
    AddReducer { store: StoreIx, comp: CompId },
    AddMiddleware { store: StoreIx, comp: CompId },
    Close { store: StoreIx },
    Stop { store: StoreIx, via_trait: bool },
    DropDroppable { store: StoreIx },
    GateRelease { gate: GateId, n: u32 },
    GateAwait { gate: GateId, entered: u32 },
    GateOpen { gate: GateId },
    /// non-blocking: bump the gate's `entered` counter (client-to-client signalling)
    GateSignal { gate: GateId },
    Stall(Stall),
}

#[derive(Clone, Debug, PartialEq, Eq, Hash, Serialize, Deserialize, Default)]
pub struct Scenario {
    pub stores: Vec<StoreSpec>,
    pub comps: Vec<CompSpec>,
    pub subs: Vec<SubSpec>,
    pub actions: Vec<ActScript>,
    pub gates: u32,
    /// executed by the coordinator before the client threads start
    pub prelude: Vec<Op>,
    pub threads: Vec<Vec<Op>>,
    /// executed by the coordinator after all client threads were joined; afterwards the
    /// coordinator always opens every gate and stops every store (idempotent clean-up)
    pub epilogue: Vec<Op>,
    /// the scenario keeps a thread away for longer than the store's internal 3 s time-outs on
    /// purpose: slow operations are expected and do not make the case inconclusive. Only set by
    /// scenarios whose oracle holds whichever way the time-outs fall.
    #[serde(default)]
    pub long_waits: bool,
}

impl Scenario {
    pub fn comp(&self, id: CompId) -> &CompSpec {
        self.comps.iter().find(|c| c.id == id).expect("comp id")
    }
    pub fn sub(&self, id: SubId) -> &SubSpec {
        self.subs.iter().find(|c| c.id == id).expect("sub id")
    }
    pub fn hash64(&self) -> u64 {
        use std::hash::{Hash, Hasher};
        let mut h = std::collections::hash_map::DefaultHasher::new();
        self.hash(&mut h);
        h.finish()
    }
    pub fn all_ops(&self) -> impl Iterator<Item = &Op> {
        self.prelude.iter().chain(self.threads.iter().flatten()).chain(self.epilogue.iter())
    }
    /// Every operation anybody may perform: client ops plus the ones issued from inside effects,
    /// thunks / tasks and subscriber callbacks.
    pub fn every_op(&self) -> Vec<&Op> {
        let mut v: Vec<&Op> = self.all_ops().collect();
        for a in &self.actions {
            for (_, e) in &a.effects {
                v.extend(e.ops.iter());
            }
        }
        for o in self.all_ops() {
            if let Op::DispatchThunk { eff, .. } | Op::DispatchTask { eff, .. } = o {
                v.extend(eff.ops.iter());
            }
        }
        for s in &self.subs {
            v.extend(s.on_unsub_ops.iter());
            for (_, ops) in &s.on_notify_ops {
                v.extend(ops.iter());
            }
        }
        v
    }
    /// Does the event log show what the pipeline of `store` does with *every* action? True when a
    /// scripted reducer or middleware is configured at build time (the first middleware's
    /// before_reduce, or else every reducer, runs for each action), or when a direct subscriber is
    /// registered before the clients start and nobody ever unsubscribes it. A store with an empty
    /// chain, no middleware and no such observer processes actions without any callback; oracles
    /// that count "actions taken by the reducer" cannot judge it.
    pub fn observable(&self, store: StoreIx) -> bool {
        let sp = &self.stores[store];
        if !sp.reducers.is_empty() || !sp.middlewares.is_empty() {
            return true;
        }
        let every = self.every_op();
        self.prelude.iter().any(|o| match o {
            Op::Subscribe { store: s, sub } if *s == store => {
                matches!(self.sub(*sub).kind, SubKind::Direct) && !every.iter().any(|x| matches!(x, Op::Unsubscribe { sub: u, .. } if u == sub))
            }
            _ => false,
        })
    }
}
