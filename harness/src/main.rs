//! vreal / vsched: one source tree, two flavours (see DESIGN.md section 4).
mod build;
mod diffs;
mod digest;
mod drive;
mod exec;
mod log;
mod pipe;
mod profile;
mod props;
mod rt;
mod scenario;
mod world;

use profile::Tier;
use serde_json::json;
use std::path::PathBuf;

fn verif_dir() -> String {
    std::env::var("VERIF_DIR").unwrap_or_else(|_| "/verif".into())
}

fn install_panic_hook() {
    let default = std::panic::take_hook();
    std::panic::set_hook(Box::new(move |info| {
        let msg = if let Some(s) = info.payload().downcast_ref::<&str>() {
            s.to_string()
        } else if let Some(s) = info.payload().downcast_ref::<String>() {
            s.clone()
        } else {
            String::new()
        };
        // scripted panics and the store's own `expect` on a closed store are part of the
        // generated fault sequences; runtime deadlock reports are turned into verdicts
        const QUIET: [&str; 5] = [world::SCRIPTED_PANIC, "no dispatch failed", "deadlock!", "exceeded max_steps", "the channel of the thread pool has been closed"];
        if QUIET.iter().any(|q| msg.contains(q)) && std::env::var("VERIF_LOUD").is_err() {
            return;
        }
        default(info);
    }));
}

fn main() {
    // the schedule-controlled runtime installs its own (noisy) panic hook once, at its first
    // execution: let it do that now, then put ours on top
    #[cfg(rs_store_verif)]
    {
        shuttle::check_random(|| {}, 1);
        let _ = std::panic::take_hook();
    }
    install_panic_hook();
    let args: Vec<String> = std::env::args().collect();
    let cmd = args.get(1).map(|s| s.as_str()).unwrap_or("");
    match cmd {
        "run" => {
            let id = args.get(2).expect("property id");
            let tier = match args.get(3).map(|s| s.as_str()) {
                Some("thorough") => Tier::Thorough,
                _ => Tier::Quick,
            };
            let seed: u64 = std::env::var("VERIF_SEED").ok().and_then(|s| s.parse::<i64>().ok()).map(|x| x as u64).unwrap_or(0);
            let workers: usize = std::env::var("VERIF_WORKERS").ok().and_then(|s| s.parse().ok()).unwrap_or(16);
            let p = props::by_id(id).unwrap_or_else(|| {
                eprintln!("unknown property {}", id);
                std::process::exit(2)
            });
            let t0 = std::time::Instant::now();
            let mut extra = None;
            if !rt::SCHED {
                if let Some(ex) = p.extra {
                    extra = Some(ex(tier));
                }
            }
            let rep = drive::run_profile(p, &drive::RunCfg { tier, seed, workers });
            let wall = t0.elapsed().as_secs_f64();
            let replays = PathBuf::from(verif_dir()).join("replays");
            let mut viols = vec![];
            for f in rep.failures.iter().take(3) {
                let path = drive::write_replay(&replays, p.id, f);
                println!("VIOLATION property={} replay={}", p.id, path.display());
                println!("  driver={} schedule={:?}", drive::DRIVER, f.sched);
                println!("  {}", f.msg);
                viols.push(json!({"msg": f.msg, "replay": path.display().to_string()}));
            }
            if let Some(ex) = &extra {
                for (i, m) in ex.violations.iter().enumerate() {
                    let path = replays.join(format!("{}-X-{:016x}.json", p.id, drive::str_hash(m)));
                    let _ = std::fs::create_dir_all(&replays);
                    let _ = std::fs::write(&path, serde_json::to_string_pretty(&json!({"property": p.id, "driver": "X", "message": m})).unwrap());
                    if i < 5 {
                        println!("VIOLATION property={} replay={}", p.id, path.display());
                        println!("  {}", m);
                    }
                    viols.push(json!({"msg": m, "replay": path.display().to_string()}));
                }
            }
            for (sig, n) in &rep.stats.known {
                let what = drive::known_sigs(p.id).into_iter().find(|(s, _)| s == sig).map(|x| x.1).unwrap_or_default();
                println!("KNOWN-FINDING: property={} {} [sig={} hits={} driver={}]", p.id, what, sig, n, drive::DRIVER);
            }
            if let Some(a) = &rep.aborted {
                println!("NO-VERDICT property={} driver={} {}", p.id, drive::DRIVER, a);
            }
            let part = json!({
                "property": p.id, "driver": drive::DRIVER,
                "tier": if tier == Tier::Quick { "quick" } else { "thorough" },
                "seed": seed, "cases": rep.stats.cases, "evaluations": rep.stats.evaluations,
                "enumerated": rep.enumerated, "enumerated_exhaustive": rep.enumerated_exhaustive,
                "distinct_nontrivial": rep.stats.nontrivial.len(),
                "nontrivial_hashes": rep.stats.nontrivial.iter().map(|h| format!("{}{:016x}", drive::DRIVER, h)).collect::<Vec<_>>(),
                "classes": rep.stats.classes, "inconclusive": rep.stats.inconclusive,
                "inconclusive_why": rep.stats.inconclusive_why,
                "known_findings_hit": rep.stats.known, "notes_other_properties": rep.stats.notes,
                "samples": rep.stats.samples, "violations": viols, "aborted": rep.aborted,
                "wall_s": wall, "rule": p.rule, "assumptions": p.assumptions,
                "extra": extra.as_ref().map(|e| json!({"evaluations": e.evaluations, "nontrivial": e.nontrivial, "samples": e.samples, "exhaustive": e.exhaustive, "note": e.note})),
            });
            let parts = PathBuf::from(verif_dir()).join("evidence/.parts");
            let _ = std::fs::create_dir_all(&parts);
            let _ = std::fs::write(parts.join(format!("{}.{}.json", p.id, drive::DRIVER)), serde_json::to_string_pretty(&part).unwrap());
            println!(
                "{} {} {:?}: cases={} evaluations={} nontrivial={} inconclusive={} wall={:.1}s classes={:?}",
                p.id, drive::DRIVER, tier, rep.stats.cases, rep.stats.evaluations, rep.stats.nontrivial.len(), rep.stats.inconclusive, wall, rep.stats.classes
            );
            let code = if !viols.is_empty() {
                1
            } else if rep.aborted.is_some() {
                2
            } else {
                0
            };
            std::process::exit(code);
        }
        "replay" => {
            let path = args.get(2).expect("replay file");
            let body = std::fs::read_to_string(path).expect("read replay");
            let r: drive::Replay = serde_json::from_str(&body).expect("parse replay");
            if r.driver != drive::DRIVER {
                println!("SKIP replay of driver {} in flavour {}", r.driver, drive::DRIVER);
                std::process::exit(3);
            }
            let p = props::by_id(&r.property).expect("property");
            match drive::replay(p, &r) {
                Some(m) => {
                    println!("VIOLATION property={} replay={}", r.property, path);
                    println!("  {}", m);
                    std::process::exit(1);
                }
                None => {
                    println!("replay: no violation reproduced");
                    std::process::exit(0);
                }
            }
        }
        "shimdiff" => std::process::exit(diffs::shim_diff()),
        "enginediff" => {
            let mode = args.get(2).map(|s| s.as_str()).unwrap_or("emit");
            let path = format!("{}/target/enginediff.json", verif_dir());
            std::process::exit(diffs::engine_diff(mode, &path));
        }
        "trace" => {
            let path = args.get(2).expect("replay file");
            let body = std::fs::read_to_string(path).expect("read replay");
            let r: drive::Replay = serde_json::from_str(&body).expect("parse replay");
            let scn = std::sync::Arc::new(r.scenario.clone());
            let sched = if rt::SCHED { r.sched.clone() } else { exec::Sched::Os };
            let h = exec::execute(&scn, &sched);
            println!("prelude: {:?}", scn.prelude);
            for (i, t) in scn.threads.iter().enumerate() {
                println!("thread {}: {:?}", i + 1, t);
            }
            println!("epilogue: {:?}", scn.epilogue);
            println!("stores: {:?}", scn.stores);
            for (i, rec) in h.recs.iter().enumerate() {
                let what = match &rec.ev {
                    log::Ev::Inv { th, ix } => format!("Inv t{}#{} {:?}", th, ix, digest::op_of(&scn, *th, *ix)),
                    e => format!("{:?}", e),
                };
                println!("@{:<4} tid{:<2} {}", i, rec.tid, what);
            }
            println!("end: {:?}", h.end);
            let p = props::by_id(&r.property).expect("property");
            let out = (p.check)(&scn, &h);
            for v in out.violations {
                println!("VIOL: {}", v.msg);
            }
        }
        _ => {
            eprintln!("usage: {} run <ID> <quick|thorough> | replay <file>", args[0]);
            std::process::exit(2);
        }
    }
}
