//! Common types for per-property profiles (generator + oracle + budget).
use crate::log::History;
use crate::scenario::Scenario;
use proptest::prelude::*;
use serde::{Deserialize, Serialize};

#[derive(Clone, Copy, Debug, PartialEq, Eq)]
pub enum Tier {
    Quick,
    Thorough,
}

/// Raw generated material; every profile maps it to a valid `Scenario` by construction
/// (no rejection), so shrinking the raw value shrinks the scenario.
#[derive(Clone, Debug, Serialize, Deserialize, PartialEq, Eq, Hash)]
pub struct Raw {
    pub knobs: Vec<u16>,
    pub threads: Vec<Vec<RawOp>>,
    /// selects the generator: the property's own one or one borrowed from another property
    #[serde(default)]
    pub alt: u16,
}
#[derive(Clone, Copy, Debug, Serialize, Deserialize, PartialEq, Eq, Hash)]
pub struct RawOp {
    pub k: u16,
    pub a: u16,
    pub b: u16,
    pub c: u16,
}

pub const KNOBS: usize = 16;

pub fn raw_strategy(max_threads: usize, max_ops: usize) -> BoxedStrategy<Raw> {
    let op = (any::<u16>(), any::<u16>(), any::<u16>(), any::<u16>()).prop_map(|(k, a, b, c)| RawOp { k, a, b, c });
    (
        proptest::collection::vec(any::<u16>(), KNOBS),
        proptest::collection::vec(proptest::collection::vec(op, 0..=max_ops), 1..=max_threads),
        any::<u16>(),
    )
        .prop_map(|(knobs, threads, alt)| Raw { knobs, threads, alt })
        .boxed()
}

#[derive(Clone, Debug)]
pub struct Viol {
    pub msg: String,
    /// signature name of a listed known finding this failure matches exactly (else None)
    pub known: Option<&'static str>,
}

#[derive(Clone, Debug, Default)]
pub struct Outcome {
    pub violations: Vec<Viol>,
    pub nontrivial: bool,
    pub classes: Vec<&'static str>,
    /// the case could not be judged (e.g. stop() needed ≥ 2.5 s on real threads)
    pub inconclusive: Option<String>,
    /// discrepancies that belong to other properties (printed, never counted)
    pub notes: Vec<String>,
}

impl Outcome {
    pub fn viol(&mut self, msg: String) {
        self.violations.push(Viol { msg, known: None });
    }
    pub fn known(&mut self, sig: &'static str, msg: String) {
        self.violations.push(Viol { msg, known: Some(sig) });
    }
    pub fn class(&mut self, c: &'static str) {
        if !self.classes.contains(&c) {
            self.classes.push(c);
        }
    }
}

pub struct Budget {
    /// driver R: cases (quick, thorough)
    pub r_cases: (u32, u32),
    /// driver S: scenarios (quick, thorough) and schedules per scenario (quick, thorough)
    pub s_cases: (u32, u32),
    pub s_scheds: (u32, u32),
}

pub struct Profile {
    pub id: &'static str,
    pub rule: &'static str,
    pub raw: fn(Tier) -> BoxedStrategy<Raw>,
    pub build: fn(&Raw, Tier, bool) -> Scenario,
    pub check: fn(&Scenario, &History) -> Outcome,
    pub budget: Budget,
    /// a deadlock / hang in this profile's scenarios violates this property (liveness clause)
    pub liveness: bool,
    /// extra deterministic cases run before the random ones (exhaustive enumerations); the bool
    /// says whether the list enumerates a finite space completely
    pub enumerate: Option<fn(Tier, bool) -> EnumSpec>,
    /// extra non-scenario checks (direct unit-level enumeration), R only
    pub extra: Option<fn(Tier) -> ExtraResult>,
    pub assumptions: &'static [&'static str],
    /// other properties whose *generators* are borrowed for a quarter of the random cases (this
    /// property's oracle must be valid for any scenario they produce)
    pub borrow: &'static [&'static str],
}

/// A deterministic list of cases, produced lazily by index.
pub struct EnumSpec {
    pub n: usize,
    pub make: Box<dyn Fn(usize) -> Scenario + Send + Sync>,
    /// the list enumerates a finite space completely
    pub exhaustive: bool,
}

#[derive(Default)]
pub struct ExtraResult {
    pub evaluations: u64,
    pub nontrivial: u64,
    pub violations: Vec<String>,
    pub samples: Vec<serde_json::Value>,
    pub exhaustive: bool,
    pub note: String,
}
