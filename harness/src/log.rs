//! Totally ordered event log + per-case context shared by every scripted component.
//!
//! Soundness of every "happened before" argument in the oracles rests on one fact: an event that
//! was appended earlier was appended by code that ran earlier, so `Ret(a) < Inv(b)` in the log
//! implies that call a returned before call b was invoked.
//!
//! Under the schedule-controlled drivers the append goes through a runtime mutex (`sched`), which
//! is also the scheduling point that lets the scheduler interleave inside callbacks.
use crate::rt;
use crate::scenario::*;
use serde::{Deserialize, Serialize};
use std::collections::HashMap;
use std::sync::Arc;

pub type Tid = u32;

/// Where a nested (non-client) dispatch was issued from.
#[derive(Clone, Debug, PartialEq, Eq, Hash, Serialize, Deserialize)]
pub enum Nest {
    Thunk(EffId),
    Mw(CompId, Hook, ActId),
    /// forwarded from inside on_notify of a subscriber, while it was told about the action
    Sub(SubId, ActId),
}

#[derive(Clone, Debug, PartialEq, Eq, Hash, Serialize, Deserialize)]
pub enum Res {
    Unit,
    Ok,
    Err,
    State(St),
    /// action_received, action_dropped, action_reduced, effect_issued, middleware_executed,
    /// state_notified, subscriber_notified, error_occurred
    Metrics([usize; 8]),
    Skipped,
}

#[derive(Clone, Debug, PartialEq, Eq, Hash, Serialize, Deserialize)]
pub enum Ev {
    /// client op (thread index, op index) is about to be executed; thread 0 = coordinator
    Inv { th: u32, ix: u32 },
    Ret { th: u32, ix: u32, res: Res },
    /// nested dispatch from a thunk or a middleware
    NInv { from: Nest, act: ActId },
    NRet { from: Nest, act: ActId, ok: bool },
    MwIn { comp: CompId, hook: Hook, act: ActId, st: St, neff: u32 },
    MwOut { comp: CompId, hook: Hook, act: ActId, verdict: Verdict, read: Option<St> },
    MwErr { comp: CompId },
    RedIn { comp: CompId, act: ActId, st: St },
    RedOut { comp: CompId, act: ActId, out: St, keep: bool, eff: Option<EffId> },
    NotIn { sub: SubId, act: ActId, st: St },
    NotOut { sub: SubId, act: ActId, read: Option<St> },
    Unsub { sub: SubId },
    /// selector's `select` was called (i.e. the selector subscriber was notified)
    SelIn { sub: SubId, st: St },
    SelCb { sub: SubId, val: u64, act: ActId },
    /// coordinator: store built (ok) or build() returned InitError
    Built { store: u32, ok: bool },
    Eff { eff: EffId },
    EffEnd { eff: EffId },
    ItNew { it: u32 },
    It { it: u32, act: ActId, st: St },
    ItNone { it: u32, nth: u32 },
    ItDropIn { it: u32 },
    ItDropOut { it: u32 },
    /// coordinator: final clean-up (gates opened, every store stopped) starts / is complete
    CleanupIn,
    CleanupOut,
}

#[derive(Clone, Debug, PartialEq, Eq, Hash, Serialize, Deserialize)]
pub struct Rec {
    pub tid: Tid,
    pub ev: Ev,
}

#[derive(Default)]
pub struct LogInner {
    pub recs: Vec<Rec>,
    pub threads: Vec<(String, String)>, // tid -> (runtime key, name)
    pub by_key: HashMap<String, Tid>,
    /// R only: client ops that took >= 2500 ms (th, ix, ms)
    pub slow: Vec<(u32, u32, u64)>,
}

/// Counting gate: `pass` blocks until a token is available (or the gate is open).
pub struct Gate {
    m: rt::Mutex<GateSt>,
    cv: rt::Condvar,
}
#[derive(Default)]
struct GateSt {
    entered: u32,
    tokens: u32,
    open: bool,
}
impl Gate {
    pub fn new() -> Self {
        Gate { m: rt::Mutex::new(GateSt::default()), cv: rt::Condvar::new() }
    }
    pub fn pass(&self) {
        let mut g = rt::lock(&self.m);
        g.entered += 1;
        self.cv.notify_all();
        while !g.open && g.tokens == 0 {
            g = match self.cv.wait(g) {
                Ok(g) => g,
                Err(e) => e.into_inner(),
            };
        }
        if !g.open {
            g.tokens -= 1;
        }
    }
    /// non-blocking: only counts an entry
    pub fn signal(&self) {
        let mut g = rt::lock(&self.m);
        g.entered += 1;
        self.cv.notify_all();
    }
    pub fn release(&self, n: u32) {
        let mut g = rt::lock(&self.m);
        g.tokens += n;
        self.cv.notify_all();
    }
    pub fn open(&self) {
        let mut g = rt::lock(&self.m);
        g.open = true;
        self.cv.notify_all();
    }
    /// wait until `pass` has been entered at least n times (or the gate is open)
    pub fn await_entered(&self, n: u32) {
        let mut g = rt::lock(&self.m);
        while g.entered < n && !g.open {
            g = match self.cv.wait(g) {
                Ok(g) => g,
                Err(e) => e.into_inner(),
            };
        }
    }
}

pub struct Ctx {
    pub scn: Arc<Scenario>,
    /// scheduling point + serialisation of appends
    sched: rt::Mutex<()>,
    /// the log itself lives behind a std mutex so that it survives an aborted execution
    pub log: Arc<std::sync::Mutex<LogInner>>,
    pub gates: Vec<Gate>,
}

impl Ctx {
    pub fn new(scn: Arc<Scenario>, log: Arc<std::sync::Mutex<LogInner>>) -> Self {
        let gates = (0..scn.gates).map(|_| Gate::new()).collect();
        Ctx { scn, sched: rt::Mutex::new(()), log, gates }
    }
    pub fn ev(&self, ev: Ev) {
        let (key, name) = rt::current();
        let _g = rt::lock(&self.sched);
        let mut l = match self.log.lock() {
            Ok(l) => l,
            Err(e) => e.into_inner(),
        };
        let tid = match l.by_key.get(&key) {
            Some(t) => *t,
            None => {
                let t = l.threads.len() as Tid;
                l.threads.push((key.clone(), name));
                l.by_key.insert(key, t);
                t
            }
        };
        l.recs.push(Rec { tid, ev });
    }
    pub fn note_slow(&self, th: u32, ix: u32, ms: u64) {
        let mut l = match self.log.lock() {
            Ok(l) => l,
            Err(e) => e.into_inner(),
        };
        l.slow.push((th, ix, ms));
    }
    pub fn stall(&self, s: Stall) {
        match s {
            Stall::None => {}
            Stall::Yield => rt::yield_now(),
            Stall::Us50 => rt::sleep_us(50),
            Stall::Us500 => rt::sleep_us(500),
            Stall::Ms2 => rt::sleep_us(2000),
            Stall::Ms(ms) => rt::sleep_us(ms as u64 * 1000),
        }
    }
    pub fn gate(&self, g: GateId) -> &Gate {
        &self.gates[g as usize]
    }
}

/// What a finished (or aborted) case leaves behind for the oracles.
#[derive(Clone, Debug, Serialize, Deserialize)]
pub struct History {
    pub recs: Vec<Rec>,
    pub threads: Vec<(String, String)>,
    /// how the execution ended
    pub end: End,
    /// R only: client ops that took >= 2500 ms (th, ix, ms)
    pub slow: Vec<(u32, u32, u64)>,
}

#[derive(Clone, Debug, PartialEq, Eq, Serialize, Deserialize)]
pub enum End {
    Completed,
    /// S/F: no runnable task while some were unfinished (message from the runtime)
    Deadlock(String),
    /// S/F: step bound exceeded
    StepBound,
    /// R: watchdog expired
    Hang,
    /// the harness itself failed (panic message)
    Crash(String),
}
