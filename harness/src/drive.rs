//! The generated-input search: proptest cases (× generated schedules in the schedule-controlled
//! flavour), counters for the evidence, shrinking, replay files.
use crate::exec::{execute_many, Sched};
use crate::log::*;
use crate::profile::*;
use crate::rt;
use crate::scenario::*;
use proptest::test_runner::{Config, RngSeed, TestCaseError, TestError, TestRunner};
use serde::{Deserialize, Serialize};
use serde_json::json;
use std::collections::{BTreeMap, HashSet};
use std::path::PathBuf;
use std::sync::{Arc, Mutex};

pub const DRIVER: &str = if rt::SCHED { "S" } else { "R" };

#[derive(Clone, Debug, Serialize, Deserialize)]
pub struct Replay {
    pub property: String,
    pub driver: String,
    pub sched: Sched,
    pub message: String,
    pub scenario: Scenario,
}

#[derive(Default)]
pub struct Stats {
    pub cases: u64,
    pub evaluations: u64,
    pub nontrivial: HashSet<u64>,
    pub classes: BTreeMap<String, u64>,
    pub inconclusive: u64,
    pub inconclusive_why: BTreeMap<String, u64>,
    pub known: BTreeMap<String, u64>,
    pub samples: Vec<serde_json::Value>,
    pub notes: BTreeMap<String, u64>,
    pub failed: bool,
}

pub struct Failure {
    pub scn: Scenario,
    pub sched: Sched,
    pub msg: String,
}

pub struct Report {
    pub stats: Stats,
    pub failures: Vec<Failure>,
    /// hang / crash / too many inconclusive: no verdict (exit 2)
    pub aborted: Option<String>,
    pub enumerated: u64,
    pub enumerated_exhaustive: bool,
}

fn mix64(a: u64, b: u64) -> u64 {
    let mut x = a ^ b.wrapping_mul(0x9E37_79B9_7F4A_7C15);
    x ^= x >> 30;
    x = x.wrapping_mul(0xBF58_476D_1CE4_E5B9);
    x ^= x >> 27;
    x = x.wrapping_mul(0x94D0_49BB_1331_11EB);
    x ^ (x >> 31)
}

pub fn str_hash(s: &str) -> u64 {
    s.bytes().fold(0xcbf2_9ce4_8422_2325u64, |h, b| (h ^ b as u64).wrapping_mul(0x100_0000_01b3))
}

/// Known-finding signatures listed (committed) for a property. Never written at run time.
pub fn known_sigs(property: &str) -> Vec<(String, String)> {
    let path = std::env::var("VERIF_DIR").unwrap_or_else(|_| "/verif".into()) + "/known-findings.txt";
    let mut v = vec![];
    if let Ok(s) = std::fs::read_to_string(path) {
        for l in s.lines() {
            let l = l.trim();
            if let Some(rest) = l.strip_prefix("known:") {
                let mut prop = None;
                let mut sig = None;
                let mut words = vec![];
                for w in rest.split_whitespace() {
                    if let Some(p) = w.strip_prefix("property=") {
                        prop = Some(p.to_string());
                    } else if let Some(s) = w.strip_prefix("sig=") {
                        sig = Some(s.to_string());
                    } else {
                        words.push(w);
                    }
                }
                if prop.as_deref() == Some(property) {
                    if let Some(s) = sig {
                        v.push((s, words.join(" ")));
                    }
                }
            }
        }
    }
    v
}

pub fn schedules_for(scn: &Scenario, n: u32) -> Vec<Sched> {
    if !rt::SCHED {
        return vec![Sched::Os];
    }
    let base = scn.hash64();
    let mut v = Vec::with_capacity(n as usize);
    for k in 0..n as u64 {
        let seed = mix64(base, k);
        if k % 2 == 0 {
            v.push(Sched::Random { seed });
        } else {
            v.push(Sched::Pct { seed, depth: 1 + ((k / 2) % 3) as usize });
        }
    }
    v
}

/// Short human-readable form of a scenario and what happened, for evidence samples.
pub fn summarize(scn: &Scenario, h: &History) -> serde_json::Value {
    let d = crate::digest::Digest::new(scn, h);
    let stores: Vec<_> = scn
        .stores
        .iter()
        .enumerate()
        .map(|(i, s)| {
            json!({
                "name": s.name, "capacity": s.capacity, "policy": format!("{:?}", s.policy),
                "reducers": s.reducers, "middlewares": s.middlewares,
                "pipeline_order": d.stores[i].runs.iter().map(|r| r.act).collect::<Vec<_>>(),
            })
        })
        .collect();
    let opstr = |o: &Op| -> String {
        let s = format!("{:?}", o);
        if s.len() > 90 {
            format!("{}…", &s[..90])
        } else {
            s
        }
    };
    json!({
        "stores": stores,
        "prelude": scn.prelude.iter().map(opstr).collect::<Vec<_>>(),
        "threads": scn.threads.iter().map(|t| t.iter().map(opstr).collect::<Vec<_>>()).collect::<Vec<_>>(),
        "epilogue": scn.epilogue.iter().map(opstr).collect::<Vec<_>>(),
        "events": h.recs.len(),
        "end": format!("{:?}", h.end),
    })
}

pub struct RunCfg {
    pub tier: Tier,
    pub seed: u64,
    pub workers: usize,
}

fn budget(p: &Profile, tier: Tier) -> (u32, u32) {
    let scale: f64 = std::env::var("VERIF_SCALE").ok().and_then(|s| s.parse().ok()).unwrap_or(1.0);
    let (cases, scheds) = if rt::SCHED {
        match tier {
            Tier::Quick => (p.budget.s_cases.0, p.budget.s_scheds.0),
            Tier::Thorough => (p.budget.s_cases.1, p.budget.s_scheds.1),
        }
    } else {
        match tier {
            Tier::Quick => (p.budget.r_cases.0, 1),
            Tier::Thorough => (p.budget.r_cases.1, 1),
        }
    };
    (((cases as f64 * scale).ceil() as u32).max(if cases > 0 { 1 } else { 0 }), scheds)
}

/// The scenario of one generated case: the property's own generator, or - for a quarter of the
/// cases of a property whose oracle is generic over scenarios - the generator of another property
/// (`Profile::borrow`), with a final stop + get_state + get_metrics appended.
pub fn build_case(p: &'static Profile, raw: &Raw, tier: Tier) -> (Scenario, Option<&'static str>) {
    let lender: Option<&'static Profile> = if !p.borrow.is_empty() && raw.alt % 4 == 0 {
        crate::props::by_id(p.borrow[(raw.alt as usize / 4) % p.borrow.len()])
    } else {
        None
    };
    match lender {
        Some(l) => {
            let mut s = (l.build)(raw, tier, rt::SCHED);
            // make sure every store is stopped and then read (state, metrics) at the end
            for ix in 0..s.stores.len() {
                s.epilogue.push(Op::Stop { store: ix, via_trait: false });
            }
            for ix in 0..s.stores.len() {
                s.epilogue.push(Op::GetState { store: ix });
                s.epilogue.push(Op::GetMetrics { store: ix });
            }
            (s, Some(l.id))
        }
        None => ((p.build)(raw, tier, rt::SCHED), None),
    }
}

/// Judge one scenario on one schedule. Returns Err(message) for a violation that is not a listed
/// known finding.
#[allow(clippy::too_many_arguments)]
fn judge_all(
    p: &Profile,
    scn: &Arc<Scenario>,
    scheds: &[Sched],
    stats: &Mutex<Stats>,
    known: &[(String, String)],
    counting: bool,
    abort: &Mutex<Option<String>>,
    borrowed: Option<&'static str>,
) -> Result<(), (Sched, String)> {
    let mut res = Ok(());
    execute_many(scn, scheds, &mut |sched, h| match judge(p, scn, sched, h, stats, known, counting, abort, borrowed) {
        Ok(()) => abort.lock().unwrap().is_some(),
        Err(m) => {
            res = Err((sched.clone(), m));
            true
        }
    });
    res
}

#[allow(clippy::too_many_arguments)]
fn judge(
    p: &Profile,
    scn: &Arc<Scenario>,
    sched: &Sched,
    h: &History,
    stats: &Mutex<Stats>,
    known: &[(String, String)],
    counting: bool,
    abort: &Mutex<Option<String>>,
    borrowed: Option<&'static str>,
) -> Result<(), String> {
    let mut st = stats.lock().unwrap();
    if counting && !st.failed {
        st.evaluations += 1;
        if let Some(b) = borrowed {
            *st.classes.entry(format!("generator-borrowed-from-{}", b)).or_default() += 1;
        }
    }
    // Scenarios from a borrowed generator are judged by this property's oracle over the history
    // only: a deadlock / hang there belongs to the lending property (and may be one of its known
    // findings), so the case is set aside.
    if borrowed.is_some() && !matches!(h.end, End::Completed) {
        st.inconclusive += 1;
        *st.inconclusive_why.entry("borrowed-scenario-did-not-complete".into()).or_default() += 1;
        return Ok(());
    }
    match &h.end {
        End::Completed => {}
        End::Deadlock(m) => {
            if !p.liveness {
                let why = format!("deadlock in a {} scenario (no liveness clause in this property; see C13): {}", p.id, short(m));
                *st.inconclusive_why.entry("deadlock".into()).or_default() += 1;
                st.inconclusive += 1;
                drop(st);
                abort.lock().unwrap().get_or_insert(why);
                return Ok(());
            }
        }
        End::Hang => {
            drop(st);
            // Real threads: one expired watchdog is never a verdict. For a property with a liveness
            // clause the same case is executed again (twice, fresh threads): a tiny program that
            // does not finish within the watchdog three times out of three is a systematic hang.
            if p.liveness && !crate::rt::SCHED {
                let mut hangs = 1;
                for _ in 0..2 {
                    let mut again = None;
                    execute_many(scn, std::slice::from_ref(sched), &mut |_, h2| {
                        again = Some(h2.end.clone());
                        true
                    });
                    if again == Some(End::Hang) {
                        hangs += 1;
                    }
                }
                if hangs == 3 {
                    // no shrinking for hangs (every candidate would cost three watchdogs)
                    abort.lock().unwrap().get_or_insert("HANG-VIOLATION".to_string());
                    return Err(format!(
                        "hang on real threads: 3 of 3 executions of this case did not finish within the watchdog. {}",
                        crate::props::common::blocked_summary(scn, h)
                    ));
                }
            }
            let mut st = stats.lock().unwrap();
            *st.inconclusive_why.entry("watchdog".into()).or_default() += 1;
            st.inconclusive += 1;
            drop(st);
            abort.lock().unwrap().get_or_insert(format!("watchdog expired on a real-thread case of {}", p.id));
            return Ok(());
        }
        End::StepBound => {
            st.inconclusive += 1;
            *st.inconclusive_why.entry("step-bound".into()).or_default() += 1;
            return Ok(());
        }
        End::Crash(m) => {
            let why = format!("harness crash: {}", short(m));
            drop(st);
            abort.lock().unwrap().get_or_insert(why);
            return Ok(());
        }
    }
    drop(st);
    let out = (p.check)(scn, h);
    let mut st = stats.lock().unwrap();
    let count = counting && !st.failed;
    if let Some(why) = &out.inconclusive {
        if count {
            st.inconclusive += 1;
            *st.inconclusive_why.entry(why.clone()).or_default() += 1;
            // give up early instead of grinding through thousands of slow cases
            if st.inconclusive >= 48 && st.inconclusive * 20 > st.evaluations {
                let msg = format!("{} of the first {} evaluations were inconclusive (> 5 %): {:?}", st.inconclusive, st.evaluations, st.inconclusive_why);
                drop(st);
                abort.lock().unwrap().get_or_insert(msg);
            }
        }
        return Ok(());
    }
    if count {
        for c in &out.classes {
            *st.classes.entry(c.to_string()).or_default() += 1;
        }
        for n in &out.notes {
            *st.notes.entry(n.clone()).or_default() += 1;
        }
        if out.nontrivial {
            let hsh = scn.hash64();
            if st.nontrivial.insert(hsh) && st.samples.len() < 3 {
                let mut s = summarize(scn, h);
                s["schedule"] = json!(format!("{:?}", sched));
                s["classes"] = json!(out.classes);
                st.samples.push(s);
            }
        }
    }
    let mut real: Option<String> = None;
    for v in &out.violations {
        match v.known {
            Some(sig) if known.iter().any(|(s, _)| s == sig) => {
                if count {
                    *st.known.entry(sig.to_string()).or_default() += 1;
                }
            }
            _ => {
                real.get_or_insert(v.msg.clone());
            }
        }
    }
    match real {
        Some(m) => Err(m),
        None => Ok(()),
    }
}

fn short(m: &str) -> String {
    m.chars().take(300).collect()
}

pub fn run_profile(p: &'static Profile, cfg: &RunCfg) -> Report {
    let (cases, scheds) = budget(p, cfg.tier);
    let known = known_sigs(p.id);
    let stats = Arc::new(Mutex::new(Stats::default()));
    let abort: Arc<Mutex<Option<String>>> = Default::default();
    let failures: Arc<Mutex<Vec<Failure>>> = Default::default();
    let mut enumerated = 0u64;
    let mut enumerated_exhaustive = false;

    // 1. enumerated cases (deterministic lists), split over workers
    if let Some(en) = p.enumerate {
        let spec = en(cfg.tier, rt::SCHED);
        enumerated = spec.n as u64;
        enumerated_exhaustive = spec.exhaustive;
        let spec = Arc::new(spec);
        let next = Arc::new(std::sync::atomic::AtomicUsize::new(0));
        let mut hs = vec![];
        for _ in 0..cfg.workers {
            let (spec, next, stats, abort, failures, known) = (spec.clone(), next.clone(), stats.clone(), abort.clone(), failures.clone(), known.clone());
            hs.push(std::thread::spawn(move || loop {
                let i = next.fetch_add(1, std::sync::atomic::Ordering::SeqCst);
                if i >= spec.n || abort.lock().unwrap().is_some() || !failures.lock().unwrap().is_empty() {
                    break;
                }
                let scn = Arc::new((spec.make)(i));
                stats.lock().unwrap().cases += 1;
                if let Err((sched, m)) = judge_all(p, &scn, &schedules_for(&scn, scheds.min(8)), &stats, &known, true, &abort, None) {
                    stats.lock().unwrap().failed = true;
                    failures.lock().unwrap().push(Failure { scn: (*scn).clone(), sched, msg: m });
                }
            }));
        }
        for h in hs {
            let _ = h.join();
        }
    }

    // 2. random cases with shrinking
    let per = (cases as usize).div_ceil(cfg.workers.max(1)) as u32;
    let mut hs = vec![];
    let claimed = Arc::new(std::sync::atomic::AtomicBool::new(false));
    if cases > 0 && failures.lock().unwrap().is_empty() {
        for wk in 0..cfg.workers {
            let (stats, abort, failures, known) = (stats.clone(), abort.clone(), failures.clone(), known.clone());
            let claimed = claimed.clone();
            let tier = cfg.tier;
            let seed = mix64(mix64(mix64(cfg.seed, str_hash(p.id)), str_hash(DRIVER)), wk as u64);
            hs.push(std::thread::spawn(move || {
                let mut config = Config::default();
                config.cases = per;
                config.failure_persistence = None;
                config.rng_seed = RngSeed::Fixed(seed);
                config.max_shrink_iters = if rt::SCHED { 300 } else { 200 };
                config.max_global_rejects = 0;
                let mut runner = TestRunner::new(config);
                let last: Arc<Mutex<Option<Failure>>> = Default::default();
                let last2 = last.clone();
                let shrinking = Arc::new(std::sync::atomic::AtomicBool::new(false));
                let shr = shrinking.clone();
                let claimed = claimed.clone();
                let strat = (p.raw)(tier);
                let r = runner.run(&strat, move |raw| {
                    let in_shrink = shr.load(std::sync::atomic::Ordering::SeqCst);
                    // only one worker shrinks and reports; the others stop exploring
                    if abort.lock().unwrap().is_some() || (!in_shrink && claimed.load(std::sync::atomic::Ordering::SeqCst)) {
                        return Ok(());
                    }
                    // a quarter of the cases use the generator of another property (same oracle)
                    let (scn, borrowed) = build_case(p, &raw, tier);
                    let scn = Arc::new(scn);
                    if !in_shrink {
                        stats.lock().unwrap().cases += 1;
                    }
                    // R: a candidate during shrinking counts as failing if any of 5 runs fails
                    let attempts = if !rt::SCHED && in_shrink { 5 } else { 1 };
                    for _ in 0..attempts {
                        if let Err((sched, m)) = judge_all(p, &scn, &schedules_for(&scn, scheds), &stats, &known, !in_shrink, &abort, borrowed) {
                            if !in_shrink && claimed.swap(true, std::sync::atomic::Ordering::SeqCst) {
                                return Ok(());
                            }
                            shr.store(true, std::sync::atomic::Ordering::SeqCst);
                            stats.lock().unwrap().failed = true;
                            *last2.lock().unwrap() = Some(Failure { scn: (*scn).clone(), sched, msg: m.clone() });
                            return Err(TestCaseError::fail(m));
                        }
                    }
                    Ok(())
                });
                if let Err(TestError::Fail(..)) | Err(TestError::Abort(..)) = &r {
                    if let Some(f) = last.lock().unwrap().take() {
                        failures.lock().unwrap().push(f);
                    }
                }
            }));
        }
    }
    for h in hs {
        let _ = h.join();
    }
    let stats = std::mem::take(&mut *stats.lock().unwrap());
    let failures = std::mem::take(&mut *failures.lock().unwrap());
    let mut aborted = abort.lock().unwrap().clone();
    if aborted.as_deref() == Some("HANG-VIOLATION") {
        aborted = None; // reported as a violation through `failures`
    }
    if aborted.is_none() && stats.evaluations > 0 && stats.inconclusive * 20 > stats.evaluations {
        aborted = Some(format!("{} of {} evaluations were inconclusive (> 5 %): {:?}", stats.inconclusive, stats.evaluations, stats.inconclusive_why));
    }
    Report { stats, failures, aborted, enumerated, enumerated_exhaustive }
}

pub fn write_replay(dir: &PathBuf, property: &str, f: &Failure) -> PathBuf {
    let _ = std::fs::create_dir_all(dir);
    let r = Replay { property: property.to_string(), driver: DRIVER.to_string(), sched: f.sched.clone(), message: f.msg.clone(), scenario: f.scn.clone() };
    let body = serde_json::to_string_pretty(&r).unwrap();
    let name = format!("{}-{}-{:016x}.json", property, DRIVER, str_hash(&body));
    let path = dir.join(name);
    let _ = std::fs::write(&path, body);
    path
}

/// Re-execute a replay file without proptest. Returns Ok(None) when nothing was violated.
pub fn replay(p: &'static Profile, r: &Replay) -> Option<String> {
    let known = known_sigs(p.id);
    let stats = Mutex::new(Stats::default());
    let abort = Mutex::new(None);
    let scn = Arc::new(r.scenario.clone());
    let attempts = if rt::SCHED { 1 } else { 200 };
    for _ in 0..attempts {
        let sched = if rt::SCHED { r.sched.clone() } else { Sched::Os };
        if let Err((_, m)) = judge_all(p, &scn, std::slice::from_ref(&sched), &stats, &known, false, &abort, None) {
            return Some(m);
        }
        if let Some(a) = abort.lock().unwrap().clone() {
            return Some(format!("no verdict: {}", a));
        }
    }
    None
}
