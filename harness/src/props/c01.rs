//! C01 — state is the sequential fold of the reducer chain over accepted actions.
use super::common::*;
use crate::build::*;
use crate::digest::*;
use crate::log::*;
use crate::pipe::Kind;
use crate::profile::*;
use crate::scenario::*;

pub fn raw(tier: Tier) -> proptest::strategy::BoxedStrategy<Raw> {
    match tier {
        Tier::Quick => raw_strategy(4, 10),
        Tier::Thorough => raw_strategy(4, 20),
    }
}

pub fn build(raw: &Raw, _tier: Tier, _sched: bool) -> Scenario {
    let mut b = ScnB::new();
    let cap = CAPS[pick(knob(raw, 0), CAPS.len())];
    let policy = POLS_MOSTLY_BLOCK[pick(knob(raw, 1), POLS_MOSTLY_BLOCK.len())];
    let ctor = CTORS[pick(knob(raw, 2), 3)].clone();
    let s = b.store("c01", cap, policy, ctor);
    // 0 = a store created without any reducer (`StoreImpl::new` / `without_reducer()`): the chain is empty
    // until a client adds one at run time
    let nred = pick(knob(raw, 3), 4);
    let mut reds: Vec<CompId> = (0..nred).map(|_| b.reducer(s)).collect();
    let nmw = pick(knob(raw, 4), 3);
    let mws: Vec<CompId> = (0..nmw).map(|_| b.middleware(s)).collect();
    if nred == 0 && nmw == 0 {
        // no callback would ever show what the pipeline does with an action: keep one observer
        let sub = b.sub(SubKind::Direct);
        b.s.prelude.push(Op::Subscribe { store: s, sub });
    }
    let racing_stop = knob(raw, 5) % 4 == 0;
    let mut added = 0;
    let mut nsub = 0;
    let nthreads = raw.threads.len();
    for (t, ops) in raw.threads.iter().enumerate() {
        let th = b.thread();
        for r in ops {
            let op = match r.k % 20 {
                0..=12 => {
                    // follow-ups only when they cannot fill a blocking queue from a pool thread
                    // in a way that outlives the scenario: they are plain dispatches, fine.
                    let o = ActOpts { reducers: &reds, middlewares: &mws, effects: true, followups: true, veto: true, keeps: true, panics: false };
                    let a = scripted_action(&mut b, s, r, &o);
                    Op::Dispatch { act: a, via: via_of(r) }
                }
                13 | 14 => Op::GetState { store: s },
                15 if added < 2 => {
                    added += 1;
                    let c = b.comp();
                    reds.push(c);
                    Op::AddReducer { store: s, comp: c }
                }
                16 if nsub < 2 => {
                    nsub += 1;
                    let sub = b.sub(SubKind::Direct);
                    Op::Subscribe { store: s, sub }
                }
                17 => Op::Stall(stall_of(r.a)),
                _ => Op::GetState { store: s },
            };
            b.s.threads[th].push(op);
        }
        if racing_stop && t + 1 == nthreads {
            let at = pick(knob(raw, 6), b.s.threads[th].len() + 1);
            // a racing stop() - or only close(), the epilogue's stop() then has to wait for the backlog
            let op = if knob(raw, 7) % 3 == 2 { Op::Close { store: s } } else { Op::Stop { store: s, via_trait: knob(raw, 7) % 2 == 1 } };
            b.s.threads[th].insert(at, op);
        }
    }
    // a quarter of the cases: a permanent subscriber dispatches follow-ups into the store from
    // inside on_notify (drop policy or a queue that cannot fill: a reducer-context dispatch into a
    // full blocking queue would be the self-deadlock C13 excludes) - possibly while another
    // thread is inside stop()
    if knob(raw, 8) % 4 == 0 {
        let acts: Vec<ActId> = b.s.threads.iter().flatten().filter_map(|o| match o { Op::Dispatch { act, .. } => Some(*act), _ => None }).collect();
        if !acts.is_empty() {
            if b.s.stores[s].policy == Pol::Block {
                b.s.stores[s].capacity = 512;
            }
            let host = b.sub(SubKind::Direct);
            b.s.prelude.push(Op::Subscribe { store: s, sub: host });
            for j in 0..1 + (knob(raw, 9) % 3) as usize {
                let trigger = acts[pick(knob(raw, 10).rotate_left(4 * j as u32), acts.len())];
                if b.sub_mut(host).on_notify_ops.iter().any(|(t, _)| *t == trigger) {
                    continue;
                }
                let f = b.action(s, j as u8);
                b.sub_mut(host).on_notify_ops.push((trigger, vec![Op::Dispatch { act: f, via: VIAS[(knob(raw, 11) as usize + j) % 3] }]));
            }
        }
    }
    b.s.epilogue.push(Op::Stop { store: s, via_trait: false });
    b.s.epilogue.push(Op::GetState { store: s });
    b.finish()
}

pub fn check(scn: &Scenario, h: &History) -> Outcome {
    let mut out = Outcome::default();
    let Some((d, p)) = prepare("C01", true, scn, h, &mut out) else { return out };
    for m in findings_of(&p, &[Kind::Fold]) {
        out.viol(m);
    }
    note_others(&p, &[Kind::Fold], &mut out);
    for (s, sd) in d.stores.iter().enumerate() {
        if sd.built != Some(true) {
            continue;
        }
        let block = scn.stores[s].policy == Pol::Block;
        let runs = &p.runs[s];
        if scn.stores[s].reducers.is_empty() {
            out.class("store-created-without-reducer");
        }
        // (i) exactly once for accepted actions under the blocking policy
        if block {
            for disp in d.disps.iter().filter(|x| d.store_of_act(x.act) == s && x.ok == Some(true)) {
                match runs.iter().find(|r| r.act == disp.act) {
                    None => out.viol(format!("action {} was accepted (dispatch returned Ok under BlockOnFull) but never reached the reducer", disp.act)),
                    Some(r) => {
                        if !r.vetoed {
                            for (c, iv) in &sd.reducers {
                                let required = (iv.add_ret == Some(0) && iv.add_inv == Some(0)) || iv.add_ret.map(|x| x < disp.inv).unwrap_or(false);
                                if required && !r.reducers.contains(c) {
                                    out.viol(format!("accepted action {} did not go through reducer {} of the chain", disp.act, c));
                                }
                            }
                        }
                    }
                }
            }
        }
        // (iii) after stop() returned get_state() is the state after the last reduced action
        if let Some(stop_ret) = sd.first_stop_ret {
            for o in d.ops.values() {
                if let (Some(Op::GetState { store }), Some(Res::State(st))) = (d.op(o.th, o.ix), &o.res) {
                    if *store == s && o.inv > stop_ret && *st != p.final_state[s] {
                        out.viol(format!("get_state() after stop() returned {:?} but the state after the last reduced action is {:?}", st, p.final_state[s]));
                    }
                }
            }
        }
        // non-triviality: interleaved producers, or a chain with a Keep in it
        let order: Vec<ActId> = runs.iter().map(|r| r.act).collect();
        let mut producers = std::collections::HashSet::new();
        let mut interleaved = false;
        let mut last_thread: Option<u32> = None;
        let mut switches = 0;
        for a in &order {
            if let Some(Disp { src: Src::Client { th, .. }, .. }) = d.disp_of(*a) {
                producers.insert(*th);
                if last_thread.is_some() && last_thread != Some(*th) {
                    switches += 1;
                }
                last_thread = Some(*th);
            }
        }
        if producers.len() >= 2 && switches >= producers.len() {
            interleaved = true;
            out.class("interleaved-producers");
        }
        let keep_chain = runs.iter().any(|r| r.reducers.len() >= 2 && r.keeps.iter().any(|k| *k));
        if keep_chain {
            out.class("chain-with-keep");
        }
        if runs.iter().any(|r| r.vetoed) {
            out.class("vetoed-action");
        }
        if sd.reducers.iter().any(|(c, iv)| iv.add_ret != Some(0) && runs.iter().any(|r| r.reducers.contains(c))) {
            out.class("runtime-reducer-used");
        }
        if !block {
            out.class("drop-policy");
        }
        if interleaved || keep_chain {
            out.nontrivial = true;
        }
    }
    out
}

pub static PROFILE: Profile = Profile {
    id: "C01",
    rule: "proptest scenarios: 1-4 producer threads, 0-3 build-time reducers (0 = a store created without a reducer, then observed through one permanent subscriber; + up to 2 added at run time), Dispatch/Keep mixes, effects incl. follow-up actions, vetoing middleware, capacity 1-16, all policies, concurrent get_state/add_subscriber, optional racing stop() or close() (followed by the final stop()); in a quarter of the cases a permanent subscriber dispatches follow-ups from inside on_notify. Non-trivial = pipeline order interleaves >= 2 producers (more producer switches than producers) OR some action went through a chain of >= 2 reducers containing a Keep; distinct by scenario hash.",
    raw,
    build,
    check,
    budget: Budget { r_cases: (4000, 40000), s_cases: (3000, 10000), s_scheds: (16, 64) },
    liveness: true,
    enumerate: None,
    extra: None,
    borrow: &["C02", "C03", "C04", "C05", "C06", "C07", "C08", "C09", "C10", "C11", "C12", "C13", "C14", "C15", "C18", "C19"],
    assumptions: &[
        "states are 64-bit hash chains over (reducer id, action id): equality of hashes is taken as equality of histories",
        "exactly-once for accepted actions is claimed under BlockOnFull only (as the property says); under drop policies at-most-once and chain linking",
    ],
};
