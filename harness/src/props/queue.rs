//! C05 — BlockOnFull is lossless and bounded; C06 — drop policies.
use super::common::*;
use crate::build::*;
use crate::digest::*;
use crate::log::*;
use crate::pipe::Kind;
use crate::profile::*;
use crate::scenario::*;

fn raw(tier: Tier) -> proptest::strategy::BoxedStrategy<Raw> {
    match tier {
        Tier::Quick => raw_strategy(3, 14),
        Tier::Thorough => raw_strategy(3, 14),
    }
}

const SMALL_CAPS: [usize; 6] = [1, 1, 2, 2, 3, 4];

/// number of pipeline runs of store s that had started at log position p, and whether the reducer
/// context was provably still inside one of them at p
fn started_at(d: &Digest, s: StoreIx, p: Pos) -> (usize, bool) {
    let runs = &d.stores[s].runs;
    let started = runs.iter().filter(|r| r.first < p).count();
    let inside = runs.iter().any(|r| r.first < p && r.last > p);
    (started, inside)
}

// =============================================================================== C05

pub fn c05_build(raw: &Raw, _tier: Tier, _sched: bool) -> Scenario {
    let mut b = ScnB::new();
    let cap = SMALL_CAPS[pick(knob(raw, 0), SMALL_CAPS.len())];
    let ctor = CTORS[pick(knob(raw, 1), 3)].clone();
    let s = b.store("c05", cap, Pol::Block, ctor);
    let g = b.gate();
    let r0 = b.reducer(s);
    b.comp_mut(r0).gate = Some(g);
    let nred = pick(knob(raw, 2), 2);
    let mut reds = vec![r0];
    for _ in 0..nred {
        reds.push(b.reducer(s));
    }
    let sub = b.sub(SubKind::Direct);
    b.s.prelude.push(Op::Subscribe { store: s, sub });
    let probe = knob(raw, 3) % 3 == 0;
    if probe {
        // exact-capacity probe: while the reducer holds the primer, `capacity` further dispatches
        // must all return (no token is released until the producer says it is done)
        let done = b.gate();
        let th = b.thread();
        let primer = b.action(s, 0);
        b.s.threads[th].push(Op::Dispatch { act: primer, via: Via::Inherent });
        b.s.threads[th].push(Op::GateAwait { gate: g, entered: 1 });
        for i in 0..cap {
            let a = b.action(s, 1);
            b.s.threads[th].push(Op::Dispatch { act: a, via: VIAS[(knob(raw, 4) as usize + i) % 3] });
        }
        b.s.threads[th].push(Op::GateSignal { gate: done });
        // one more: must block until a token is released
        let extra = 1 + pick(knob(raw, 5), 3);
        for i in 0..extra {
            let a = b.action(s, 2);
            b.s.threads[th].push(Op::Dispatch { act: a, via: VIAS[(knob(raw, 6) as usize + i) % 3] });
        }
        let c = b.thread();
        b.s.threads[c].push(Op::GateAwait { gate: done, entered: 1 });
        b.s.threads[c].push(Op::Stall(stall_of(knob(raw, 7))));
        let steps = pick(knob(raw, 8), 4);
        for i in 0..steps {
            b.s.threads[c].push(Op::GateRelease { gate: g, n: 1 });
            b.s.threads[c].push(Op::Stall(stall_of(knob(raw, 9).wrapping_add(i as u16))));
        }
        b.s.threads[c].push(Op::GateOpen { gate: g });
    } else {
        // a third of these cases: a second store whose subscriber forwards actions into this one
        // from inside on_notify, i.e. a producer that is another store's reducer thread. It is
        // entitled to exactly the same back-pressure as any other producer.
        if knob(raw, 3) % 3 == 1 {
            let feeder = b.store("c05-feeder", 16, Pol::Block, Ctor::Builder);
            let fr = b.reducer(feeder);
            let fsub = b.sub(SubKind::Direct);
            b.sub_mut(fsub).forwards = true;
            b.s.prelude.push(Op::Subscribe { store: feeder, sub: fsub });
            let th = b.thread();
            let n = 2 + pick(knob(raw, 4), 2 * cap + 3);
            for i in 0..n {
                let a = b.action(feeder, (i % 3) as u8);
                let f = b.action(s, 3);
                b.act_mut(a).forward = Some(f);
                b.s.threads[th].push(Op::Dispatch { act: a, via: VIAS[(knob(raw, 5) as usize + i) % 3] });
            }
            let _ = fr;
            b.s.epilogue.push(Op::Stop { store: feeder, via_trait: false });
        }
        let mut reconf = 0;
        for ops in raw.threads.iter() {
            let th = b.thread();
            let burst = ops.len().min(3 * cap + 2);
            for r in ops.iter().take(burst) {
                if r.k % 8 == 7 {
                    b.s.threads[th].push(Op::Stall(stall_of(r.a)));
                    continue;
                }
                // now and then a client reconfigures the running store (middleware, reducer,
                // subscriber) while others may be parked on the full queue
                if r.k % 8 == 6 && (r.k >> 3) % 4 == 0 && reconf < 2 {
                    reconf += 1;
                    let op = match (r.k >> 5) % 3 {
                        0 => Op::AddMiddleware { store: s, comp: b.comp() },
                        1 => Op::AddReducer { store: s, comp: b.comp() },
                        _ => Op::Subscribe { store: s, sub: b.sub(SubKind::Direct) },
                    };
                    b.s.threads[th].push(op);
                    continue;
                }
                // reducers may return effects, incl. Effect::Action / thunks whose follow-ups are
                // dispatched by workers into the (possibly full) queue
                let o = ActOpts { reducers: &reds, middlewares: &[], effects: true, followups: true, veto: false, keeps: true, panics: false };
                let a = scripted_action(&mut b, s, r, &o);
                b.s.threads[th].push(Op::Dispatch { act: a, via: via_of(r) });
            }
        }
        let c = b.thread();
        let steps = pick(knob(raw, 10), 8);
        for i in 0..steps {
            b.s.threads[c].push(Op::Stall(stall_of(knob(raw, 11).wrapping_add(i as u16 * 5))));
            b.s.threads[c].push(Op::GateRelease { gate: g, n: 1 + ((knob(raw, 12) >> (2 * i)) % 3) as u32 });
        }
        b.s.threads[c].push(Op::Stall(stall_of(knob(raw, 13))));
        b.s.threads[c].push(Op::GateOpen { gate: g });
        // sometimes the store is stopped while producers are still waiting for room: whatever was
        // accepted must still be reduced
        if knob(raw, 14) % 3 == 0 {
            let st = b.thread();
            let lead = pick(knob(raw, 15), 5);
            for i in 0..lead {
                b.s.threads[st].push(Op::Stall(stall_of(knob(raw, 15).wrapping_add(i as u16 * 7))));
            }
            b.s.threads[st].push(Op::Stop { store: s, via_trait: false });
        }
    }
    b.s.epilogue.push(Op::Stop { store: s, via_trait: false });
    b.s.epilogue.push(Op::GetState { store: s });
    b.finish()
}

pub fn c05_check(scn: &Scenario, h: &History) -> Outcome {
    let mut out = Outcome::default();
    let Some((d, p)) = prepare("C05", true, scn, h, &mut out) else { return out };
    note_others(&p, &[Kind::Fold], &mut out);
    for m in findings_of(&p, &[Kind::Fold]) {
        out.viol(m);
    }
    for s in 0..d.stores.len() {
        let cap = scn.stores[s].capacity;
        let runs = &p.runs[s];
        // lossless, exactly once
        let mut oks: Vec<&Disp> = d.disps.iter().filter(|x| d.store_of_act(x.act) == s && x.ok == Some(true)).collect();
        for x in &oks {
            if !runs.iter().any(|r| r.act == x.act) {
                out.viol(format!("action {} was accepted under BlockOnFull but never reduced (lost)", x.act));
            }
        }
        for x in d.disps.iter().filter(|x| d.store_of_act(x.act) == s && x.ok == Some(false)) {
            if x.ret.map(|r| r < d.stores[s].first_shutdown_inv.unwrap_or(usize::MAX)).unwrap_or(false) {
                out.viol(format!("dispatch of action {} was rejected although the store was open (BlockOnFull never discards)", x.act));
            }
        }
        // bound: at every return of a dispatch
        oks.sort_by_key(|x| x.ret.unwrap_or(usize::MAX));
        let mut reached = false;
        let mut waited = false;
        for (i, x) in oks.iter().enumerate() {
            let Some(ret) = x.ret else { continue };
            let r = i + 1;
            let (started, inside) = started_at(&d, s, ret);
            let taken_upper = if inside { started } else { started + 1 };
            if r > taken_upper + cap {
                out.viol(format!(
                    "after dispatch of action {} returned at @{}, {} dispatches had completed while the reducer had taken at most {} actions: at least {} actions accepted and not yet taken, capacity is {}",
                    x.act, ret, r, taken_upper, r - taken_upper, cap
                ));
            }
            if inside && r == started + cap {
                reached = true;
            }
            // was this dispatch invoked while the queue was provably full? (then it had to wait)
            let (st_inv, inside_inv) = started_at(&d, s, x.inv);
            let done_before = oks.iter().filter(|y| y.ret.map(|q| q < x.inv).unwrap_or(false)).count();
            if inside_inv && done_before >= st_inv + cap && started > st_inv {
                waited = true;
            }
        }
        if reached {
            out.class("bound-reached");
        }
        if d.ops.values().any(|o| o.th != 0 && matches!(d.op(o.th, o.ix), Some(Op::Stop { .. }))) {
            out.class("stop-while-producers-wait");
        }
        if waited {
            out.class("dispatch-waited-for-room");
        }
        if scn.threads.iter().flatten().any(|o| matches!(o, Op::GateSignal { .. })) {
            out.class("exact-capacity-probe");
            if reached {
                out.nontrivial = true;
            }
        }
        if reached && waited {
            out.nontrivial = true;
        }
    }
    if d.stores.len() > 1 {
        out.class("fed-by-another-stores-reducer-thread");
    }
    out
}

pub static C05: Profile = Profile {
    id: "C05",
    rule: "proptest scenarios: capacity 1-4, blocking policy, every constructor path; reducer 0 is a stepper (takes one action per token), 1-3 producers with bursts up to 3*capacity+2, a controller thread releasing tokens in generated batches and finally opening the gate, in a third of these cases a thread that stops the store while producers may still be waiting for room, in another third a second store whose subscriber forwards actions into this one from its own reducer thread; one third of the cases are exact-capacity probes (primer held, `capacity` dispatches must return with no token released, the next one must wait). Oracle O-BOUND on the event log: at every dispatch return, (#completed dispatches) - (upper bound of actions taken by the reducer) <= capacity; lossless exactly-once after the gate is opened; a producer that is never woken is a deadlock under the schedule-controlled driver. Non-trivial = the bound was reached with the reducer provably inside a callback AND some dispatch was invoked while the queue was provably full and returned only after a later action was taken (or, for probes, the bound was reached); distinct by scenario hash.",
    raw,
    build: c05_build,
    check: c05_check,
    budget: Budget { r_cases: (3000, 20000), s_cases: (4000, 10000), s_scheds: (16, 64) },
    liveness: true,
    enumerate: None,
    extra: None,
    borrow: &[],
    assumptions: &["'resumes as soon as the reducer makes room' is decided as absence of deadlock under generated schedules plus completion on real threads, not as a latency bound"],
};

// =============================================================================== C06

/// The store is closed while its reducer is held and its queue is full, and another client keeps
/// dispatching meanwhile: neither the close nor those dispatches may wait for the reducer (the
/// gate is opened only after all of them have returned, so waiting is a deadlock).
fn c06_close_while_held(raw: &Raw) -> Scenario {
    let mut b = ScnB::new();
    let cap = SMALL_CAPS[pick(knob(raw, 1), SMALL_CAPS.len())];
    let policy = if knob(raw, 2) % 2 == 0 { Pol::DropOldest } else { Pol::DropLatest };
    let s = b.store("c06", cap, policy, CTORS[pick(knob(raw, 3), 3)].clone());
    let r0 = b.reducer(s);
    let sub = b.sub(SubKind::Direct);
    b.s.prelude.push(Op::Subscribe { store: s, sub });
    let g = b.gate();
    b.comp_mut(r0).gate = Some(g);
    let (filled, done) = (b.gate(), b.gate());
    let primer = b.action(s, 0);
    b.s.prelude.push(Op::Dispatch { act: primer, via: Via::Inherent });
    b.s.prelude.push(Op::GateAwait { gate: g, entered: 1 });
    // P1 fills the queue (and overflows it by a generated amount), then tells the others
    let p1 = b.thread();
    let n1 = cap + pick(knob(raw, 4), 3);
    for i in 0..n1 {
        let a = b.action(s, (i % 4) as u8);
        b.s.threads[p1].push(Op::Dispatch { act: a, via: VIAS[(knob(raw, 5) as usize + i) % 3] });
    }
    b.s.threads[p1].push(Op::GateSignal { gate: filled });
    b.s.threads[p1].push(Op::GateSignal { gate: done });
    // the closer
    let cl = b.thread();
    b.s.threads[cl].push(Op::GateAwait { gate: filled, entered: 1 });
    b.s.threads[cl].push(Op::Stall(stall_of(knob(raw, 6))));
    b.s.threads[cl].push(if knob(raw, 7) % 2 == 0 { Op::Close { store: s } } else { Op::GetMetrics { store: s } });
    b.s.threads[cl].push(Op::Close { store: s });
    b.s.threads[cl].push(Op::GateSignal { gate: done });
    // P2 keeps dispatching while the store is being closed
    let p2 = b.thread();
    b.s.threads[p2].push(Op::GateAwait { gate: filled, entered: 1 });
    let n2 = 1 + pick(knob(raw, 8), 4);
    for i in 0..n2 {
        if (knob(raw, 9) >> i) & 1 == 1 {
            b.s.threads[p2].push(Op::Stall(stall_of(knob(raw, 10).wrapping_add(i as u16))));
        }
        let a = b.action(s, (i % 4) as u8);
        b.s.threads[p2].push(Op::Dispatch { act: a, via: VIAS[(knob(raw, 11) as usize + i) % 3] });
    }
    b.s.threads[p2].push(Op::GateSignal { gate: done });
    let c = b.thread();
    b.s.threads[c].push(Op::GateAwait { gate: done, entered: 3 });
    b.s.threads[c].push(Op::GateOpen { gate: g });
    b.s.epilogue.push(Op::Stop { store: s, via_trait: false });
    b.s.epilogue.push(Op::GetMetrics { store: s });
    b.finish()
}

/// knob 0: mode. 0 = stalled, one producer; 1 = stalled, several producers; 2 = running reducer;
/// 3 = closed while held (see above).
pub fn c06_build(raw: &Raw, _tier: Tier, _sched: bool) -> Scenario {
    if knob(raw, 0) % 4 == 3 {
        return c06_close_while_held(raw);
    }
    let mut b = ScnB::new();
    let mode = knob(raw, 0) % 4;
    let cap = SMALL_CAPS[pick(knob(raw, 1), SMALL_CAPS.len())];
    let policy = if knob(raw, 2) % 2 == 0 { Pol::DropOldest } else { Pol::DropLatest };
    let ctor = CTORS[pick(knob(raw, 3), 3)].clone();
    let s = b.store("c06", cap, policy, ctor);
    let r0 = b.reducer(s);
    let sub = b.sub(SubKind::Direct);
    b.s.prelude.push(Op::Subscribe { store: s, sub });
    let settle = b.gate();
    if mode < 2 {
        // (mode 3 is handled above)
        let g = b.gate();
        if knob(raw, 4) % 3 == 0 {
            // the primer is held inside a middleware's before_reduce hook instead of inside the
            // reducer (the reducer thread then sits in the middle of a hook loop)
            let m0 = b.middleware(s);
            b.comp_mut(m0).gate = Some(g);
        } else {
            b.comp_mut(r0).gate = Some(g);
        }
        let done = b.gate();
        let primer = b.action(s, 0);
        b.s.prelude.push(Op::Dispatch { act: primer, via: Via::Inherent });
        b.s.prelude.push(Op::GateAwait { gate: g, entered: 1 });
        let nprod = if mode == 0 { 1 } else { raw.threads.len().max(2) };
        let empty = vec![];
        let mut last_of_thread = vec![];
        for t in 0..nprod {
            let ops = raw.threads.get(t).unwrap_or(&empty);
            let th = b.thread();
            let n = ops.len().min(3 * cap + 2);
            let mut mine = vec![];
            for r in ops.iter().take(n) {
                let a = b.action(s, (r.a % 4) as u8);
                mine.push(a);
                b.s.threads[th].push(Op::Dispatch { act: a, via: via_of(r) });
            }
            b.s.threads[th].push(Op::GateSignal { gate: done });
            last_of_thread.push(mine);
        }
        let c = b.thread();
        b.s.threads[c].push(Op::GateAwait { gate: done, entered: nprod as u32 });
        b.s.threads[c].push(Op::GetMetrics { store: s });
        b.s.threads[c].push(Op::GateOpen { gate: g });
        // wait until the queue has been worked off before stopping (closing a full queue
        // legitimately costs one more action under DropOldest, and which one depends on the race
        // with the reducer): every burst action signals when it is notified, exactly
        // min(n, capacity) of them survive
        let n: usize = last_of_thread.iter().map(|v| v.len()).sum();
        for a in last_of_thread.iter().flatten() {
            b.act_mut(*a).signal = Some(settle);
        }
        if n > 0 {
            b.s.epilogue.push(Op::GateAwait { gate: settle, entered: n.min(cap) as u32 });
        }
    } else {
        for ops in raw.threads.iter() {
            let th = b.thread();
            for r in ops {
                if r.k % 8 == 7 {
                    b.s.threads[th].push(Op::Stall(stall_of(r.a)));
                    continue;
                }
                let a = b.action(s, (r.a % 4) as u8);
                if r.k % 8 == 6 {
                    b.act_mut(a).red_stall.push((r0, stall_of(r.b)));
                }
                // running reducer only: some actions return Effect::Action, i.e. a worker
                // dispatches one more action into the (possibly full) queue - it, too, is taken
                // once or counted once
                if (r.k >> 6) % 4 == 0 {
                    let f = b.action(s, 0);
                    let e = b.eff(EffKind::Action(f), false, Stall::None);
                    b.act_mut(a).effects.push((r0, e));
                }
                b.s.threads[th].push(Op::Dispatch { act: a, via: via_of(r) });
            }
        }
    }
    b.s.epilogue.push(Op::Stop { store: s, via_trait: false });
    b.s.epilogue.push(Op::GetMetrics { store: s });
    b.finish()
}

pub fn c06_check(scn: &Scenario, h: &History) -> Outcome {
    let mut out = Outcome::default();
    // a dispatch that waits (never returns while the reducer is held) is a deadlock under S
    let Some((d, p)) = prepare("C06", true, scn, h, &mut out) else { return out };
    note_others(&p, &[Kind::Fold], &mut out);
    for m in findings_of(&p, &[Kind::Fold]) {
        out.viol(m);
    }
    let s = 0;
    if scn.threads.iter().flatten().any(|o| matches!(o, Op::Close { .. })) {
        // closed while the reducer was held: the scenario completing at all is the verdict (a
        // close() or dispatch that waits for the reducer deadlocks); which of the racing
        // dispatches were still admitted is not determined
        out.class("closed-while-the-reducer-was-held");
        out.nontrivial = true;
        for x in d.disps.iter().filter(|x| matches!(x.via, Some(Via::Inherent) | Some(Via::StoreTrait)) && x.ok == Some(false)) {
            if x.ret.map(|r| r < d.stores[s].first_shutdown_inv.unwrap_or(usize::MAX)).unwrap_or(false) {
                out.viol(format!("dispatch of action {} through the store's own dispatch returned Err before the store was closed", x.act));
            }
        }
        return out;
    }
    let cap = scn.stores[s].capacity;
    let policy = scn.stores[s].policy;
    let runs = &p.runs[s];
    let stalled = scn.comps.iter().any(|c| c.gate.is_some());
    let order: Vec<ActId> = runs.iter().map(|r| r.act).collect();
    // metrics after the stop
    let dropped_final = d
        .ops
        .values()
        .filter(|o| o.th == 0 && matches!(d.op(o.th, o.ix), Some(Op::GetMetrics { .. })))
        .max_by_key(|o| o.inv)
        .and_then(|o| match &o.res {
            Some(Res::Metrics(m)) => Some(m[1]),
            _ => None,
        });
    let all: Vec<&Disp> = d.disps.iter().filter(|x| matches!(x.src, Src::Client { .. })).collect();
    // conservation (every dispatch here is made while the store is open)
    // follow-ups dispatched by workers (Effect::Action of a reduced action): each is dispatched at
    // most once - taken, counted as dropped, or refused because the store had closed meanwhile
    let follow: Vec<ActId> = runs.iter().flat_map(|r| r.effects_surviving.iter()).filter_map(|e| match eff_spec(scn, *e).map(|x| &x.kind) {
        Some(EffKind::Action(f)) => Some(*f),
        _ => None,
    }).collect();
    let follow_reduced = follow.iter().filter(|f| order.contains(f)).count();
    if let Some(dropped) = dropped_final {
        let reduced = all.iter().filter(|x| order.contains(&x.act)).count();
        if !follow.is_empty() {
            out.class("follow-ups-dispatched-by-workers");
            let (lo, hi) = (all.len(), all.len() + follow.len() - follow_reduced);
            if reduced + dropped < lo || reduced + dropped > hi {
                out.viol(format!(
                    "{} actions were dispatched by clients while the store was open and {} follow-ups by workers ({} of them reduced); {} client actions were taken by the reducer and the dropped-actions metric is {}: {} + {} is outside {}..={}",
                    all.len(), follow.len(), follow_reduced, reduced, dropped, reduced, dropped, lo, hi
                ));
            }
        } else if reduced + dropped != all.len() {
            out.viol(format!(
                "{} actions were dispatched while the store was open, {} were taken by the reducer and the dropped-actions metric is {}: {} + {} != {}",
                all.len(), reduced, dropped, reduced, dropped, all.len()
            ));
        }
        if dropped > 0 {
            out.class("something-dropped");
        }
    }
    // per-call results
    for x in &all {
        let reduced = order.contains(&x.act);
        match (x.via, x.ok) {
            (Some(Via::Inherent), Some(false)) | (Some(Via::StoreTrait), Some(false)) => {
                out.viol(format!("dispatch of action {} through the store's own dispatch returned Err while the store was open", x.act))
            }
            (Some(Via::Dispatcher), Some(ok)) => {
                if policy == Pol::DropLatest && ok != reduced {
                    out.viol(format!("DropLatest: Dispatcher::dispatch of action {} returned {} but the action was {}", x.act, if ok { "Ok" } else { "Err" }, if reduced { "reduced" } else { "discarded" }));
                }
                if policy == Pol::DropOldest && !ok {
                    out.viol(format!("DropOldest: Dispatcher::dispatch of action {} returned Err (the new action is always admitted)", x.act));
                }
            }
            _ => {}
        }
    }
    // survivors keep their dispatch order (per thread; cross-thread real-time order is C02's)
    for th in 1..=scn.threads.len() as u32 {
        let mine: Vec<ActId> = all.iter().filter(|x| matches!(x.src, Src::Client { th: t, .. } if t == th)).map(|x| x.act).collect();
        let surv: Vec<ActId> = order.iter().copied().filter(|a| mine.contains(a)).collect();
        let expect: Vec<ActId> = mine.iter().copied().filter(|a| surv.contains(a)).collect();
        if surv != expect {
            out.viol(format!("survivors of thread {} were reduced in order {:?}, dispatched in order {:?}", th, surv, expect));
        }
        let stop_inv = d.stores[s].first_shutdown_inv.unwrap_or(usize::MAX);
        if stalled && !mine.is_empty() && runs.iter().all(|r| r.first < stop_inv) {
            // stalled reducer: per thread the survivors are a suffix (DropOldest) / prefix (DropLatest)
            let k = surv.len();
            let ok = match policy {
                Pol::DropOldest => surv[..] == mine[mine.len() - k..],
                _ => surv[..] == mine[..k],
            };
            if !ok {
                out.viol(format!("{:?} with a stalled reducer: thread {} dispatched {:?} and {:?} survived, expected the {} {} of them", policy, th, mine, surv, if policy == Pol::DropOldest { "newest" } else { "oldest" }, k));
            }
        }
    }
    if stalled {
        // exactly min(n, capacity) survive the burst (primer excluded), and the metric agrees while
        // the reducer is still held
        let burst: Vec<&Disp> = all.iter().copied().filter(|x| matches!(x.src, Src::Client { th, .. } if th != 0)).collect();
        let n = burst.len();
        let surv = burst.iter().filter(|x| order.contains(&x.act)).count();
        // the close is quiet when every survivor had been taken before the first shutdown call
        let stop_inv = d.stores[s].first_shutdown_inv.unwrap_or(usize::MAX);
        let quiet = runs.iter().all(|r| r.first < stop_inv);
        if quiet || n <= cap {
            if surv != n.min(cap) {
                out.viol(format!("{:?}, capacity {}: burst of {} while the reducer was held, {} survived, expected {}", policy, cap, n, surv, n.min(cap)));
            }
        } else if surv > cap || surv + 1 < n.min(cap) {
            // without the settle wait the shutdown marker may cost one more action (DropOldest)
            out.viol(format!("{:?}, capacity {}: burst of {} while the reducer was held, {} survived, expected {} (or one fewer if the store was closed on a full queue)", policy, cap, n, surv, n.min(cap)));
        }
        // metric sampled by the controller while the gate was still closed
        if let Some(o) = d.ops.values().find(|o| o.th != 0 && matches!(d.op(o.th, o.ix), Some(Op::GetMetrics { .. }))) {
            if let Some(Res::Metrics(m)) = &o.res {
                let expect = n.saturating_sub(cap);
                if m[1] != expect {
                    out.viol(format!("{:?}, capacity {}: after a burst of {} on a held reducer the dropped-actions metric is {}, expected {}", policy, cap, n, m[1], expect));
                }
            }
        }
        if n > cap {
            out.class("stalled-burst-overflow");
            out.nontrivial = true;
        }
        if scn.threads.len() > 2 {
            out.class("stalled-multi-producer");
        }
    } else {
        let producers = scn.threads.iter().filter(|t| t.iter().any(|o| matches!(o, Op::Dispatch { .. }))).count();
        out.class("running-reducer");
        if dropped_final.unwrap_or(0) >= 1 && producers >= 2 {
            out.nontrivial = true;
        }
    }
    out.class(if policy == Pol::DropOldest { "drop-oldest" } else { "drop-latest" });
    out
}

pub static C06: Profile = Profile {
    id: "C06",
    rule: "proptest scenarios: both drop policies, capacity 1-4, every constructor path. Modes: (a) primer held by a gated reducer (or, in a third of the cases, inside a middleware's before_reduce hook), one producer sends a burst of n <= 3*capacity+2 alternating entry points, then the gate opens, min(n,capacity) survivor notifications are awaited, then stop; (b) same with 2-3 producers; (c) running reducer with 1-3 producers. Oracle O-DROP: exact survivors (newest/oldest min(n,capacity), per-thread suffix/prefix), dropped-actions metric sampled while the reducer is held and after stop, conservation reduced + dropped = dispatched, Ok/Err per call (Dispatcher::dispatch Err exactly for DropLatest discards), survivor order; a burst thread that blocks is a deadlock under S. Non-trivial = stalled modes: n > capacity; running mode: >= 1 dropped action and >= 2 producers; distinct by scenario hash.",
    raw,
    build: c06_build,
    check: c06_check,
    budget: Budget { r_cases: (4000, 30000), s_cases: (4000, 10000), s_scheds: (16, 64) },
    liveness: true,
    enumerate: None,
    extra: None,
    borrow: &[],
    assumptions: &[
        "no drop-policy channeled subscribers are attached (their discards share the store's dropped-actions counter)",
        "closing the store on a still-full queue costs one more action under DropOldest (the shutdown marker is admitted like any item); which action is hit then depends on the race with the reducer, so stalled-burst scenarios wait for the survivors' notifications before stopping and the exact-survivor clauses are applied only when every survivor was taken before the first shutdown call",
    ],
};
