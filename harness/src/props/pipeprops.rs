//! C02 (dispatch order), C03 (direct subscriber stream), C07 (phases), C08 (get_state).
use super::common::*;
use super::pipegen::*;
use crate::digest::*;
use crate::log::*;
use crate::pipe::{Kind, Tri};
use crate::profile::*;
use crate::scenario::*;
use std::collections::HashMap;

fn raw4(tier: Tier) -> proptest::strategy::BoxedStrategy<Raw> {
    match tier {
        Tier::Quick => raw_strategy(4, 10),
        Tier::Thorough => raw_strategy(4, 20),
    }
}
fn raw3(tier: Tier) -> proptest::strategy::BoxedStrategy<Raw> {
    match tier {
        Tier::Quick => raw_strategy(3, 10),
        Tier::Thorough => raw_strategy(3, 20),
    }
}

// =============================================================================== C02

const CAPS_SMALL: [usize; 6] = [1, 1, 2, 2, 3, 4];
const POLS_EVEN: [Pol; 4] = [Pol::Block, Pol::Block, Pol::DropOldest, Pol::DropLatest];

pub fn c02_build(raw: &Raw, _tier: Tier, _sched: bool) -> Scenario {
    let mut o = PipeOpts::base("c02");
    o.min_threads = 2;
    o.effects = true;
    o.followups = true;
    o.thunk_ops = true;
    o.mw_dispatch = true;
    o.cb_dispatch = true;
    o.mws = (0, 2);
    o.pols = &POLS_EVEN;
    o.caps = &CAPS_SMALL;
    o.keeps = false;
    gen_pipeline(raw, &o)
}

pub fn c02_check(scn: &Scenario, h: &History) -> Outcome {
    let mut out = Outcome::default();
    let Some((d, p)) = prepare("C02", false, scn, h, &mut out) else { return out };
    note_others(&p, &[], &mut out);
    for s in 0..d.stores.len() {
        let idx: HashMap<ActId, usize> = p.runs[s].iter().enumerate().map(|(i, r)| (r.act, i)).collect();
        let calls: Vec<&Disp> = d.disps.iter().filter(|x| d.store_of_act(x.act) == s && idx.contains_key(&x.act)).collect();
        let mut cross = 0;
        let mut mixed = 0;
        for a in &calls {
            let Some(ra) = a.ret else { continue };
            for b in &calls {
                if a.act == b.act || ra >= b.inv {
                    continue;
                }
                let (ia, ib) = (idx[&a.act], idx[&b.act]);
                if a.tid != b.tid {
                    cross += 1;
                }
                if a.via != b.via {
                    mixed += 1;
                }
                if ia > ib {
                    out.viol(format!(
                        "dispatch of action {} ({:?}, thread {}) returned at @{} before dispatch of action {} ({:?}, thread {}) was invoked at @{}, but {} was reduced before {} (pipeline positions {} > {})",
                        a.act, a.src, a.tid, ra, b.act, b.src, b.tid, b.inv, b.act, a.act, ia, ib
                    ));
                }
            }
        }
        if cross > 0 {
            out.class("cross-thread-ordered-pair");
        }
        if mixed > 0 {
            out.class("mixed-entry-points");
        }
        if calls.iter().any(|c| matches!(c.src, Src::Nest(Nest::Thunk(_)))) {
            out.class("thunk-dispatch");
        }
        if calls.iter().any(|c| matches!(c.src, Src::Nest(Nest::Mw(..)))) {
            out.class("middleware-dispatch");
        }
        if scn.stores[s].policy != Pol::Block {
            out.class("drop-policy");
        }
        if cross > 0 || mixed > 0 {
            out.nontrivial = true;
        }
    }
    if d.ops.values().any(|o| o.th >= 3000 && matches!(d.op(o.th, o.ix), Some(Op::Dispatch { .. }))) {
        out.class("dispatch-from-inside-a-subscriber-callback");
    }
    out
}

pub static C02: Profile = Profile {
    id: "C02",
    rule: "proptest scenarios: 2-4 producer threads using the three entry points at random, client thunks, effect thunks / Effect::Action, middleware dispatching through its dispatcher and a direct subscriber dispatching into its own store from inside on_notify (both only when the queue cannot fill), all policies, capacity 1-4, stalls. Oracle: for all reduced a,b with Ret(dispatch a) < Inv(dispatch b) in the event log, a precedes b in the pipeline. Non-trivial = the case has an ordered pair of reduced actions dispatched from two different threads or through two different entry points; distinct by scenario hash.",
    raw: raw4,
    build: c02_build,
    check: c02_check,
    budget: Budget { r_cases: (4000, 40000), s_cases: (3000, 10000), s_scheds: (16, 64) },
    liveness: false,
    enumerate: None,
    extra: None,
    borrow: &["C01", "C03", "C04", "C05", "C06", "C07", "C08", "C09", "C10", "C11", "C12", "C13", "C14", "C15", "C18", "C19"],
    assumptions: &["order among overlapping dispatch calls is unconstrained, as in the statement"],
};

// =============================================================================== C03

pub fn c03_build(raw: &Raw, _tier: Tier, _sched: bool) -> Scenario {
    let mut o = PipeOpts::base("c03");
    o.reducers = (0, 3);
    o.prelude_subs = (1, 4);
    o.mws = (0, 2);
    o.verdicts = true;
    o.keeps = true;
    o.caps = &CAPS_SMALL;
    o.pols = &POLS_MOSTLY_BLOCK;
    o.runtime_add = true;
    o.unsubs = true;
    // Keep / Dispatch answers that also carry an effect (the effect must not change the decision)
    o.effects = true;
    gen_pipeline(raw, &o)
}

pub fn c03_check(scn: &Scenario, h: &History) -> Outcome {
    let mut out = Outcome::default();
    let Some((d, p)) = prepare("C03", true, scn, h, &mut out) else { return out };
    for m in findings_of(&p, &[Kind::Notify]) {
        out.viol(m);
    }
    note_others(&p, &[Kind::Notify], &mut out);
    for (s, sd) in d.stores.iter().enumerate() {
        // whole-run subscribers: registered in the prelude, never unsubscribed
        let whole: Vec<SubId> = sd
            .subs
            .iter()
            .filter(|(id, iv)| matches!(d.sub_kind(*id), SubKind::Direct) && iv.unsub_inv.is_none() && d.ops.values().any(|o| o.th == 0 && Some(o.inv) == iv.add_inv))
            .map(|(id, _)| *id)
            .collect();
        let mut has_dispatch = false;
        let mut has_keep = false;
        for r in &p.runs[s] {
            let got: Vec<SubId> = r.notified.iter().map(|(x, _)| *x).filter(|x| whole.contains(x)).collect();
            // several subscribers each receive the same sequence (also where the decision is unspecified)
            if !got.is_empty() && got.len() != whole.len() {
                out.viol(format!("action {} was delivered to subscribers {:?} but not to all whole-run subscribers {:?}", r.act, got, whole));
            }
            // registration order within one action
            let expect: Vec<SubId> = whole.iter().copied().filter(|x| got.contains(x)).collect();
            if got != expect {
                out.viol(format!("action {}: whole-run subscribers were called in order {:?}, registration order is {:?}", r.act, got, expect));
            }
            match r.notify {
                Tri::Yes => has_dispatch = true,
                Tri::No => has_keep = true,
                _ => {}
            }
        }
        let producers: std::collections::HashSet<u32> = d
            .disps
            .iter()
            .filter_map(|x| match x.src {
                Src::Client { th, .. } if p.runs[s].iter().any(|r| r.act == x.act) => Some(th),
                _ => None,
            })
            .collect();
        if whole.len() >= 2 {
            out.class("two-plus-subscribers");
        }
        if has_dispatch && has_keep {
            out.class("dispatch-and-keep");
        }
        if producers.len() >= 2 {
            out.class("two-plus-producers");
        }
        if p.runs[s].iter().any(|r| r.notify == Tri::Unspecified && !r.notified.is_empty()) {
            out.class("unspecified-notified");
        }
        if sd.subs.iter().any(|(_, iv)| iv.unsub_ret.is_some()) && whole.len() >= 2 {
            out.class("another-subscriber-unsubscribed-mid-run");
        }
        if whole.len() >= 2 && has_dispatch && has_keep && producers.len() >= 2 {
            out.nontrivial = true;
        }
    }
    out
}

pub static C03: Profile = Profile {
    id: "C03",
    rule: "proptest scenarios: 1-4 direct subscribers registered in the prelude (+ subscribers added mid-run, some unsubscribed mid-run by client threads or by another subscriber from inside its callback; the ones never unsubscribed are the whole-run subscribers), 1-3 producers, per-action Dispatch/Keep answers (uniform and mixed chains), before_dispatch/before_reduce verdicts, capacity 1-4. Oracle: reference model of the notify decision per action (Yes/No/Unspecified) vs the observed callback stream (action id AND state value), equal streams and registration order across subscribers. Non-trivial = >= 2 whole-run subscribers, a pipeline containing both a notifying and a Keep action, and >= 2 producers; distinct by scenario hash.",
    raw: raw3,
    build: c03_build,
    check: c03_check,
    budget: Budget { r_cases: (4000, 30000), s_cases: (2000, 8000), s_scheds: (16, 64) },
    liveness: true,
    enumerate: None,
    extra: None,
    borrow: &["C01", "C02", "C04", "C05", "C06", "C07", "C08", "C09", "C10", "C11", "C12", "C13", "C14", "C15", "C18", "C19"],
    assumptions: &["chains that mix Dispatch and Keep, vetoed actions and reducer-less stores: notification accepted either way (but then for all subscribers alike)"],
};

// =============================================================================== C07

pub fn c07_build(raw: &Raw, _tier: Tier, _sched: bool) -> Scenario {
    let mut o = PipeOpts::base("c07");
    o.cb_dispatch = true;
    o.reducers = (0, 3);
    o.prelude_subs = (0, 3);
    o.mws = (0, 3);
    o.verdicts = true;
    o.runtime_add = true;
    o.unsubs = true;
    o.effects = true;
    gen_pipeline(raw, &o)
}

pub fn c07_check(scn: &Scenario, h: &History) -> Outcome {
    let mut out = Outcome::default();
    let Some((d, p)) = prepare("C07", true, scn, h, &mut out) else { return out };
    for m in findings_of(&p, &[Kind::Phase]) {
        out.viol(m);
    }
    // "a subscriber registered before an action is dispatched is never left out of its pipeline"
    for f in p.findings.iter().filter(|f| f.kind == Kind::Notify && f.msg.contains("was not notified")) {
        out.viol(format!("[Notify] store {} @{}: {}", f.store, f.pos, f.msg));
    }
    note_others(&p, &[Kind::Phase], &mut out);
    for (s, sd) in d.stores.iter().enumerate() {
        let producers: std::collections::HashSet<u32> = d
            .disps
            .iter()
            .filter_map(|x| match x.src {
                Src::Client { th, .. } if p.runs[s].iter().any(|r| r.act == x.act) => Some(th),
                _ => None,
            })
            .collect();
        let has_mw = !sd.middlewares.is_empty();
        // a component added at run time that is *required* for a later reduced action
        let mut late_required = false;
        for r in &p.runs[s] {
            let Some(di) = d.disp_of(r.act) else { continue };
            let req = |iv: &Interval| iv.add_ret.map(|x| x != 0 && x < di.inv).unwrap_or(false);
            if sd.reducers.iter().any(|(_, iv)| req(iv)) || sd.middlewares.iter().any(|(_, iv)| req(iv)) || sd.subs.iter().any(|(_, iv)| req(iv) && iv.add_inv.map(|x| d.rec(x).tid != 0).unwrap_or(false)) {
                late_required = true;
            }
        }
        if producers.len() >= 2 {
            out.class("two-plus-producers");
        }
        if late_required {
            out.class("runtime-component-required");
        }
        if p.runs[s].iter().any(|r| !scn.actions[r.act as usize].verdicts.is_empty()) {
            out.class("verdicts");
        }
        if producers.len() >= 2 && has_mw && late_required {
            out.nontrivial = true;
        }
    }
    if d.ops.values().any(|o| o.th >= 3000 && matches!(d.op(o.th, o.ix), Some(Op::Dispatch { .. }))) {
        out.class("dispatch-from-inside-a-subscriber-callback");
    }
    out
}

pub static C07: Profile = Profile {
    id: "C07",
    rule: "proptest scenarios: 1-4 producers, 0-3 reducers (also stores made by StoreImpl::new / new_with_reducer / new_with_name), 0-3 middlewares, 0-3 direct subscribers at build time / in the prelude, plus add_reducer / add_middleware / add_subscriber from client threads (and, in a quarter of the cases, from inside a subscriber's callback) mid-run, verdicts incl. BreakChain; in a third of the cases a subscriber dispatches follow-ups into its own store from inside on_notify (re-entrant use: the follow-up must be queued, not run inside the callback). Oracle: per action the callbacks parse as before_reduce* reduce* before_effect* before_dispatch* notify*, each group in registration order, entry/exit strictly nested, all on the store's reducer-context thread, every required component (registered before the dispatch was invoked) present unless a verdict/Keep excuses it. Non-trivial = >= 2 producers, >= 1 middleware and >= 1 run-time component that is required for a later reduced action; distinct by scenario hash.",
    raw: raw4,
    build: c07_build,
    check: c07_check,
    budget: Budget { r_cases: (4000, 30000), s_cases: (2000, 8000), s_scheds: (16, 64) },
    liveness: true,
    enumerate: None,
    extra: None,
    borrow: &["C01", "C02", "C03", "C04", "C05", "C06", "C08", "C09", "C10", "C11", "C12", "C13", "C14", "C15", "C18", "C19"],
    assumptions: &["order between two components whose registrations overlapped in time is unconstrained"],
};

// =============================================================================== C08

pub fn c08_build(raw: &Raw, _tier: Tier, _sched: bool) -> Scenario {
    let mut o = PipeOpts::base("c08");
    o.reducers = (2, 3);
    o.mws = (0, 2);
    o.prelude_subs = (1, 2);
    o.readers = true;
    o.callback_reads = true;
    o.verdicts = true;
    o.min_threads = 2;
    let mut s = gen_pipeline(raw, &o);
    // sometimes a channeled reader too
    if knob(raw, 11) % 2 == 0 {
        let id = s.subs.iter().map(|x| x.id + 1).max().unwrap_or(0);
        s.subs.push(SubSpec { id, kind: SubKind::Channeled { cap: 1 + (knob(raw, 12) % 3) as usize, pol: Pol::Block, default_ctor: false }, reads_state: true, gate: None, stall: Stall::None, via_trait: false, forwards: false, on_unsub_ops: vec![], on_notify_ops: vec![], fn_wrapped: false });
        s.prelude.push(Op::Subscribe { store: 0, sub: id });
    }
    s
}

struct Read {
    inv: Pos,
    ret: Pos,
    val: St,
    what: String,
    in_callback_of: Option<ActId>,
}

pub fn c08_check(scn: &Scenario, h: &History) -> Outcome {
    let mut out = Outcome::default();
    // a get_state() that never returns (e.g. from inside a hook) is a violation: deadlock => violation
    let Some((d, p)) = prepare("C08", true, scn, h, &mut out) else { return out };
    note_others(&p, &[], &mut out);
    for s in 0..d.stores.len() {
        let runs = &p.runs[s];
        // chain of published states: index -1 = initial
        let init = initial_state(s);
        let idx_min = |v: &St| -> Option<i64> {
            if *v == init {
                return Some(-1);
            }
            runs.iter().position(|r| r.post == *v).map(|i| i as i64)
        };
        let idx_max = |v: &St| -> Option<i64> {
            let m = runs.iter().rposition(|r| r.post == *v).map(|i| i as i64);
            if m.is_none() && *v == init {
                return Some(-1);
            }
            // the initial state stays current while leading actions are vetoed
            m
        };
        let mut reads: Vec<Read> = vec![];
        for o in d.ops.values() {
            if let (Some(Op::GetState { store }), Some(Res::State(st)), Some(ret)) = (d.op(o.th, o.ix), &o.res, o.ret) {
                if *store == s {
                    reads.push(Read { inv: o.inv, ret, val: *st, what: format!("get_state() by client thread {} (op {})", o.th, o.ix), in_callback_of: None });
                }
            }
        }
        let mut open_not: HashMap<(SubId, ActId, Tid), Pos> = HashMap::new();
        let mut open_mw: HashMap<(CompId, ActId, Hook), Pos> = HashMap::new();
        for (pos, r) in h.recs.iter().enumerate() {
            match &r.ev {
                Ev::NotIn { sub, act, .. } if d.store_of_act(*act) == s => {
                    open_not.insert((*sub, *act, r.tid), pos);
                }
                Ev::NotOut { sub, act, read: Some(v) } if d.store_of_act(*act) == s => {
                    if let Some(inp) = open_not.remove(&(*sub, *act, r.tid)) {
                        reads.push(Read { inv: inp, ret: pos, val: *v, what: format!("get_state() inside on_notify of subscriber {} for action {}", sub, act), in_callback_of: Some(*act) });
                    }
                }
                Ev::MwIn { comp, act, hook, .. } if d.store_of_act(*act) == s => {
                    open_mw.insert((*comp, *act, *hook), pos);
                }
                Ev::MwOut { comp, act, hook, read: Some(v), .. } if d.store_of_act(*act) == s => {
                    if let Some(inp) = open_mw.remove(&(*comp, *act, *hook)) {
                        reads.push(Read { inv: inp, ret: pos, val: *v, what: format!("get_state() inside {:?} of middleware {} for action {}", hook, comp, act), in_callback_of: None });
                    }
                }
                _ => {}
            }
        }
        // (a) only published end-of-chain states, already produced
        for r in &reads {
            match idx_min(&r.val) {
                None => {
                    let mid = h.recs.iter().any(|x| matches!(&x.ev, Ev::RedOut { out, .. } if *out == r.val));
                    out.viol(format!("{} returned {:?}, which is {}", r.what, r.val, if mid { "a mid-chain value (output of a reducer that is not the last of its chain)" } else { "not a state any action produced" }));
                }
                Some(i) if i >= 0 => {
                    if runs[i as usize].reduced_at > r.ret {
                        out.viol(format!("{} returned the state of action {} before that action's last reducer had returned", r.what, runs[i as usize].act));
                    }
                }
                _ => {}
            }
        }
        // (b) monotonic in real time
        let mut sorted: Vec<&Read> = reads.iter().filter(|r| idx_min(&r.val).is_some()).collect();
        sorted.sort_by_key(|r| r.ret);
        for (i, x) in sorted.iter().enumerate() {
            for y in sorted.iter().skip(i + 1) {
                if x.ret < y.inv && idx_min(&x.val).unwrap() > idx_max(&y.val).unwrap() {
                    out.viol(format!("{} returned {:?} (pipeline index {}) and later {} returned the older {:?} (index {})", x.what, x.val, idx_min(&x.val).unwrap(), y.what, y.val, idx_max(&y.val).unwrap()));
                }
            }
        }
        // (c) published before notification: any read invoked after a NotIn(k) sees index >= k
        let mut not_starts: Vec<(Pos, i64)> = vec![];
        for (pos, r) in h.recs.iter().enumerate() {
            if let Ev::NotIn { act, .. } = &r.ev {
                if d.store_of_act(*act) == s {
                    if let Some(k) = runs.iter().position(|x| x.act == *act) {
                        not_starts.push((pos, k as i64));
                    }
                }
            }
        }
        for r in &reads {
            let Some(got) = idx_max(&r.val) else { continue };
            for (pos, k) in &not_starts {
                if *pos <= r.inv && got < *k {
                    out.viol(format!("{} (invoked at @{}) returned {:?} (index {}) although a subscriber was already being told about action {} (index {}) at @{}", r.what, r.inv, r.val, got, runs[*k as usize].act, k, pos));
                    break;
                }
            }
        }
        let in_cb = reads.iter().any(|r| r.in_callback_of.is_some());
        let mut per_thread: HashMap<u32, std::collections::HashSet<u64>> = HashMap::new();
        for o in d.ops.values() {
            if let (Some(Op::GetState { .. }), Some(Res::State(st))) = (d.op(o.th, o.ix), &o.res) {
                if o.th != 0 {
                    per_thread.entry(o.th).or_default().insert(st.h);
                }
            }
        }
        let concurrent_two = per_thread.values().any(|v| v.len() >= 2);
        if in_cb {
            out.class("read-inside-callback");
        }
        if concurrent_two {
            out.class("reader-saw-two-states");
        }
        if runs.iter().any(|r| r.reducers.len() >= 2) {
            out.class("mid-chain-states-exist");
        }
        if in_cb && concurrent_two {
            out.nontrivial = true;
        }
    }
    out
}

pub static C08: Profile = Profile {
    id: "C08",
    rule: "proptest scenarios: 2-4 threads mixing dispatches and get_state loops, direct (and optionally one channeled) subscribers and middlewares that call get_state inside their callbacks, chains of 2-3 reducers so mid-chain values exist. Oracle: every value read is the initial state or an end-of-chain state whose last reducer had returned; reads ordered in real time never go back; a read invoked after a notification of action k began returns index >= k. Non-trivial = a read inside a subscriber callback AND a client thread that observed >= 2 different states; distinct by scenario hash.",
    raw: raw4,
    build: c08_build,
    check: c08_check,
    budget: Budget { r_cases: (4000, 30000), s_cases: (2000, 8000), s_scheds: (16, 64) },
    liveness: true,
    enumerate: None,
    extra: None,
    borrow: &["C01", "C02", "C03", "C04", "C05", "C06", "C07", "C09", "C10", "C11", "C12", "C13", "C14", "C15", "C18", "C19"],
    assumptions: &["states are identified by their 64-bit hash chain value"],
};
