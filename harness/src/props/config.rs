//! C16 — selector subscribers; C17 — builder validation and option independence.
use super::common::*;
use crate::build::*;
use crate::digest::*;
use crate::log::*;
use crate::profile::*;
use crate::scenario::*;
use serde_json::json;

// =============================================================================== C16

fn c16_raw(tier: Tier) -> proptest::strategy::BoxedStrategy<Raw> {
    match tier {
        Tier::Quick => raw_strategy(2, 60),
        Tier::Thorough => raw_strategy(2, 100),
    }
}

/// One `SelectorSubscriber` object registered with add_subscriber on two stores: notifications
/// arrive on two reducer threads concurrently, yet it must never deliver the value it delivered last.
fn c16_shared(raw: &Raw) -> Scenario {
    let mut b = ScnB::new();
    let mut stores = vec![];
    for i in 0..2usize {
        let s = b.store(if i == 0 { "c16x" } else { "c16y" }, CAPS[pick(knob(raw, i), CAPS.len())], Pol::Block, CTORS[pick(knob(raw, 4 + i), 3)].clone());
        b.reducer(s);
        stores.push(s);
    }
    let shared = b.sub(SubKind::SelectorObj { fresh: false });
    for s in &stores {
        b.s.prelude.push(Op::Subscribe { store: *s, sub: shared });
    }
    for (t, ops) in raw.threads.iter().enumerate() {
        let th = b.thread();
        for r in ops {
            // thread t mostly feeds store t%2; two values only, so equal neighbours are frequent
            let s = stores[(t + (r.k as usize >> 3) % 4 / 3) % 2];
            // two values per store, disjoint between the stores: equal neighbours are frequent,
            // and a notification of one store can never be explained by a delivery of the other
            let a = b.action(s, ((r.a >> 3) % 2) as u8 + 2 * s as u8);
            b.s.threads[th].push(Op::Dispatch { act: a, via: via_of(r) });
        }
    }
    for s in &stores {
        b.s.epilogue.push(Op::Stop { store: *s, via_trait: false });
    }
    b.finish()
}

/// A selector subscription made after `close()` while the held reducer still has a backlog to work
/// off: the store keeps notifying until it is drained, and the subscription is entitled to that
/// stream like the plain witness registered alongside.
fn c16_after_close(raw: &Raw) -> Scenario {
    let mut b = ScnB::new();
    let s = b.store("c16", 8, Pol::Block, CTORS[pick(knob(raw, 1), 3)].clone());
    let r0 = b.reducer(s);
    let rg = b.gate();
    b.comp_mut(r0).gate = Some(rg);
    let witness = b.sub(SubKind::Direct);
    let sel = b.sub(SubKind::Selector { fresh: false });
    let primer = b.action(s, 0);
    b.s.prelude.push(Op::Dispatch { act: primer, via: Via::Inherent });
    b.s.prelude.push(Op::GateAwait { gate: rg, entered: 1 });
    let ops = raw.threads.first().cloned().unwrap_or_default();
    for r in ops.iter().take(6) {
        let a = b.action(s, ((r.a >> 4) % 3) as u8);
        if r.k % 16 == 15 {
            b.act_mut(a).keep = vec![r0];
        }
        b.s.prelude.push(Op::Dispatch { act: a, via: via_of(r) });
    }
    b.s.prelude.push(Op::Close { store: s });
    // the witness must come first (it is `prelude[0]`-like for the oracle: first Subscribe)
    b.s.prelude.insert(0, Op::Subscribe { store: s, sub: witness });
    b.s.prelude.push(Op::Subscribe { store: s, sub: sel });
    let t = b.thread();
    b.s.threads[t].push(Op::Stall(stall_of(knob(raw, 2))));
    b.s.threads[t].push(Op::GateOpen { gate: rg });
    b.s.epilogue.push(Op::Stop { store: s, via_trait: false });
    b.finish()
}

pub fn c16_build(raw: &Raw, _tier: Tier, _sched: bool) -> Scenario {
    if knob(raw, 6) % 3 == 0 {
        return c16_shared(raw);
    }
    if knob(raw, 6) % 3 == 1 && (knob(raw, 6) >> 4) % 4 == 0 {
        return c16_after_close(raw);
    }
    let mut b = ScnB::new();
    let s = b.store("c16", CAPS[pick(knob(raw, 0), CAPS.len())], Pol::Block, CTORS[pick(knob(raw, 1), 3)].clone());
    let r0 = b.reducer(s);
    let alphabet = 2 + (knob(raw, 2) % 4) as u8;
    // a plain subscriber registered first: what *it* is told is the notification stream, whether
    // or not the selector subscriptions are told too
    let witness = b.sub(SubKind::Direct);
    b.s.prelude.push(Op::Subscribe { store: s, sub: witness });
    // a third of the cases: a middleware that vetoes some actions in before_reduce (a vetoed
    // action is still notified, with the unchanged state)
    let veto_mw = if knob(raw, 11) % 3 == 0 { Some(b.middleware(s)) } else { None };
    let sel = b.sub(SubKind::Selector { fresh: false });
    b.s.prelude.push(Op::Subscribe { store: s, sub: sel });
    // a third of the cases: the caller does not keep the Subscription handle (the handle is only
    // the means to end the subscription; dropping it ends nothing)
    if knob(raw, 15) % 3 == 0 {
        b.s.prelude.push(Op::ForgetSubscription { store: s, sub: sel });
    }
    let mut sels = vec![sel];
    if knob(raw, 3) % 2 == 0 {
        let sel2 = b.sub(SubKind::Selector { fresh: false });
        b.s.prelude.push(Op::Subscribe { store: s, sub: sel2 });
        sels.push(sel2);
    }
    // a third of the cases end a subscription mid-run (from a client thread, or from inside the
    // first subscription's callback, so that the notification in flight still reaches the other):
    // whatever the subscription is still told must be deduplicated like the rest of its stream
    let unsubs = knob(raw, 7) % 3 == 0;
    let mut acts = vec![];
    for ops in raw.threads.iter() {
        let th = b.thread();
        for r in ops {
            // runs of equal values are common: repeat the previous value half of the time
            let v = if r.k % 2 == 0 { (r.a % alphabet as u16) as u8 } else { ((r.a >> 4) % 2) as u8 };
            let a = b.action(s, v);
            acts.push(a);
            if r.k % 16 == 15 {
                b.act_mut(a).keep = vec![r0];
            }
            if let Some(mw) = veto_mw {
                if r.k % 16 == 13 || r.k % 16 == 12 {
                    b.act_mut(a).verdicts.push((mw, Hook::BeforeReduce, Verdict::Done));
                }
            }
            b.s.threads[th].push(Op::Dispatch { act: a, via: via_of(r) });
            if unsubs && (r.k >> 4) % 16 == 7 {
                b.s.threads[th].push(Op::Unsubscribe { store: s, sub: sels[pick(r.b, sels.len())] });
            }
        }
    }
    // a third of the cases: one more selector subscription is made by a client thread in the
    // middle of the run (while the other thread may be dispatching)
    if knob(raw, 12) % 3 == 0 && !b.s.threads.is_empty() {
        let late = b.sub(SubKind::Selector { fresh: false });
        let t = pick(knob(raw, 13), b.s.threads.len());
        let at = pick(knob(raw, 14), b.s.threads[t].len() + 1);
        b.s.threads[t].insert(at, Op::Subscribe { store: s, sub: late });
    }
    if unsubs && knob(raw, 8) % 2 == 0 && !acts.is_empty() {
        let trigger = acts[pick(knob(raw, 9), acts.len())];
        let victim = sels[pick(knob(raw, 10), sels.len())];
        b.sub_mut(sel).on_notify_ops.push((trigger, vec![Op::Unsubscribe { store: s, sub: victim }]));
    }
    b.s.epilogue.push(Op::Stop { store: s, via_trait: false });
    b.finish()
}

fn dedup_expected(vals: &[(u64, ActId)]) -> Vec<(u64, ActId)> {
    let mut out: Vec<(u64, ActId)> = vec![];
    for (v, a) in vals {
        if out.last().map(|l| l.0 != *v).unwrap_or(true) {
            out.push((*v, *a));
        }
    }
    out
}

pub fn c16_check(scn: &Scenario, h: &History) -> Outcome {
    let mut out = Outcome::default();
    let Some((d, _p)) = prepare("C16", false, scn, h, &mut out) else { return out };
    let s = 0;
    // a selector subscription object shared by two stores: "calls its callback exactly when the
    // selected value differs from the one it last delivered" => never the same value twice in a row
    for sp in scn.subs.iter().filter(|x| matches!(x.kind, SubKind::SelectorObj { .. })) {
        let delivered: Vec<(u64, ActId)> = h.recs.iter().filter_map(|r| match &r.ev {
            Ev::SelCb { sub, val, act } if *sub == sp.id => Some((*val, *act)),
            _ => None,
        }).collect();
        let notified = h.recs.iter().filter(|r| matches!(&r.ev, Ev::SelIn { sub, .. } if *sub == sp.id)).count();
        for w in delivered.windows(2) {
            if w[0].0 == w[1].0 {
                out.viol(format!("selector subscription object {} (registered on two stores) delivered value {} for action {} and then the same value again for action {}: it delivers only when the value differs from the one it last delivered", sp.id, w[0].0, w[0].1, w[1].1));
                break;
            }
        }
        if notified > 0 && delivered.is_empty() {
            out.viol(format!("selector subscription object {} was notified {} times but never called its callback (the first notification must be delivered)", sp.id, notified));
        }
        // deliveries carry the value selected from the state of the action they name
        for (v, a) in &delivered {
            if *v != scn.actions[*a as usize].sel as u64 {
                out.viol(format!("selector subscription object {} delivered value {} with action {}, whose state selects {}", sp.id, v, a, scn.actions[*a as usize].sel));
            }
        }
        for m in shared_selector_check(&d, sp.id) {
            out.viol(m);
        }
        out.class("shared-between-two-stores");
        let vals: Vec<u64> = scn.actions.iter().map(|a| a.sel as u64).collect();
        if vals.windows(2).any(|w| w[0] == w[1]) && vals.iter().any(|v| *v != vals[0]) && notified >= 4 {
            out.nontrivial = true;
        }
    }
    if scn.stores.len() > 1 {
        return out;
    }
    // the witness of the single-store generator: a direct subscriber registered in the prelude
    // before the selector subscriptions and never unsubscribed
    let witness: Option<SubId> = scn.prelude.first().and_then(|o| match o {
        Op::Subscribe { sub, .. } if matches!(scn.sub(*sub).kind, SubKind::Direct) => Some(*sub),
        _ => None,
    }).filter(|w| !scn.every_op().iter().any(|o| matches!(o, Op::Unsubscribe { sub, .. } if sub == w)));
    let first_dispatch = d.disps.iter().map(|x| x.inv).min().unwrap_or(usize::MAX);
    for (sub, _) in d.stores[s].subs.iter() {
        if !matches!(d.sub_kind(*sub), SubKind::Selector { .. }) {
            continue;
        }
        // the notification stream seen by this selector subscription: (selected value, action)
        let mut stream: Vec<(u64, ActId)> = vec![];
        let mut delivered: Vec<(u64, ActId)> = vec![];
        for (pos, r) in h.recs.iter().enumerate() {
            match &r.ev {
                Ev::SelIn { sub: x, st } if x == sub => {
                    let act = d.stores[s].runs.iter().find(|run| run.first <= pos && pos <= run.last).map(|run| run.act).unwrap_or(u32::MAX);
                    stream.push((st.sel as u64, act));
                }
                Ev::SelCb { sub: x, val, act } if x == sub => delivered.push((*val, *act)),
                _ => {}
            }
        }
        // subscriptions that are never ended: the stream is what the witness (a plain subscriber
        // registered first, never unsubscribed) was told from the moment this subscription existed -
        // a notification the selector subscription never got to see counts too. A notification is
        // *required* when the registration had returned before the action's last pre-notification
        // callback returned (the subscriber list is read after that); the one round that may have
        // been under way while the registration ran is accepted either way.
        let my_iv = d.stores[s].subs.iter().find(|(x, _)| x == sub).map(|x| x.1.clone());
        if let (Some(iv), Some(w)) = (my_iv.filter(|iv| iv.unsub_inv.is_none() && iv.add_ret.is_some()), witness) {
            let (add_inv, add_ret) = (iv.add_inv.unwrap_or(0), iv.add_ret.unwrap());
            let wentries: Vec<(u64, ActId, Pos)> = h.recs.iter().enumerate().filter_map(|(pos, r)| match &r.ev {
                Ev::NotIn { sub: x, act, st } if *x == w => Some((st.sel as u64, *act, pos)),
                _ => None,
            }).collect();
            let pre_notify = |act: ActId, upto: Pos| -> Pos {
                h.recs[..upto].iter().enumerate().rev().find_map(|(p, r)| match &r.ev {
                    Ev::RedOut { act: a, .. } | Ev::MwOut { act: a, .. } if *a == act => Some(p),
                    _ => None,
                }).unwrap_or(0)
            };
            let first_req = wentries.iter().position(|(_, a, pos)| add_ret < pre_notify(*a, *pos)).unwrap_or(wentries.len());
            let cand_a: Vec<(u64, ActId)> = wentries[first_req..].iter().map(|x| (x.0, x.1)).collect();
            // the registration took effect at an unknown moment between its invocation and its
            // return: the stream may start at any round that was notified in that interval
            let first_possible = wentries.iter().position(|(_, _, pos)| *pos > add_inv).unwrap_or(wentries.len()).min(first_req);
            let ok = (first_possible..=first_req).any(|i| {
                let cand: Vec<(u64, ActId)> = wentries[i..].iter().map(|x| (x.0, x.1)).collect();
                delivered == dedup_expected(&cand)
            });
            if !ok {
                out.viol(format!(
                    "selector subscription {} (registered at @{}..@{}): the store's notification stream (value,action), as told to a plain subscriber registered before it, is {:?} from the first notification this subscription was entitled to; callback received {:?}, expected consecutive-duplicate removal {:?}",
                    sub, add_inv, add_ret, cand_a, delivered, dedup_expected(&cand_a)
                ));
            }
            if scn.actions.iter().any(|a| a.verdicts.iter().any(|(_, hk, v)| *hk == Hook::BeforeReduce && *v == Verdict::Done)) {
                out.class("vetoed-actions-in-the-stream");
            }
            if add_ret > first_dispatch {
                out.class("subscribed-while-actions-were-queued");
            }
        }
        let expect = dedup_expected(&stream);
        if delivered != expect {
            out.viol(format!(
                "selector subscription {}: notification stream (value,action) {:?}; callback received {:?}, expected consecutive-duplicate removal {:?}",
                sub, stream, delivered, expect
            ));
        }
        let vals: Vec<u64> = stream.iter().map(|x| x.0).collect();
        let adjacent_repeat = vals.windows(2).any(|w| w[0] == w[1]);
        let returns = (0..vals.len()).any(|i| (i + 2..vals.len()).any(|j| vals[j] == vals[i] && (i + 1..j).any(|k| vals[k] != vals[i])));
        if adjacent_repeat {
            out.class("adjacent-repeat");
        }
        if returns {
            out.class("return-to-earlier-value");
        }
        if adjacent_repeat && returns {
            out.nontrivial = true;
        }
        if d.stores[s].subs.iter().any(|(x, iv)| x == sub && iv.unsub_inv.is_some()) {
            out.class("unsubscribed-mid-run");
        }
    }
    if h.recs.iter().any(|r| matches!(r.ev, Ev::Inv { th, .. } if th >= 3000)) {
        out.class("unsubscribe-from-inside-the-callback");
    }
    out
}

/// Direct exhaustive enumeration: every sequence over {0,1,2} of length 0..=8 fed straight to
/// `SelectorSubscriber::on_notify` (driver R only: the real std Mutex).
#[cfg(not(rs_store_verif))]
pub fn c16_extra(_tier: Tier) -> ExtraResult {
    use rs_store::{Selector, SelectorSubscriber, Subscriber};
    use std::sync::{Arc, Mutex};
    struct Sel;
    impl Selector<St, u64> for Sel {
        fn select(&self, st: &St) -> u64 {
            st.sel as u64
        }
    }
    let mut res = ExtraResult { exhaustive: true, note: "every sequence of selected values over {0,1,2} of length 0..=8 fed to SelectorSubscriber::on_notify; non-trivial = contains an adjacent repeat and a later return to an earlier value".into(), ..Default::default() };
    for len in 0..=8u32 {
        for code in 0..3u32.pow(len) {
            let mut seq = vec![];
            let mut c = code;
            for _ in 0..len {
                seq.push((c % 3) as u8);
                c /= 3;
            }
            let got: Arc<Mutex<Vec<(u64, ActId)>>> = Default::default();
            let g2 = got.clone();
            let sub = SelectorSubscriber::new(Sel, move |v: u64, a: Act| g2.lock().unwrap().push((v, a.id)));
            for (i, v) in seq.iter().enumerate() {
                let st = St { h: i as u64, n: i as u32, sel: *v, last: i as u32 };
                sub.on_notify(&st, &Act { id: i as u32 });
            }
            let stream: Vec<(u64, ActId)> = seq.iter().enumerate().map(|(i, v)| (*v as u64, i as u32)).collect();
            let expect = dedup_expected(&stream);
            let got = got.lock().unwrap().clone();
            res.evaluations += 1;
            let vals: Vec<u8> = seq.clone();
            let adjacent = vals.windows(2).any(|w| w[0] == w[1]);
            let returns = (0..vals.len()).any(|i| (i + 2..vals.len()).any(|j| vals[j] == vals[i] && (i + 1..j).any(|k| vals[k] != vals[i])));
            if adjacent && returns {
                res.nontrivial += 1;
                if res.samples.len() < 3 && len >= 5 {
                    res.samples.push(json!({"selected_values": seq, "delivered": got}));
                }
            }
            if got != expect {
                res.violations.push(format!("SelectorSubscriber fed selected values {:?}: callback received {:?}, expected {:?}", seq, got, expect));
                if res.violations.len() >= 5 {
                    return res;
                }
            }
        }
    }
    res
}
#[cfg(rs_store_verif)]
pub fn c16_extra(_tier: Tier) -> ExtraResult {
    ExtraResult::default()
}

pub static C16: Profile = Profile {
    id: "C16",
    rule: "(1) enumeration: every sequence of selected values over {0,1,2} of length 0..=8 (9841 sequences) fed straight to SelectorSubscriber::on_notify; (2) proptest: sequences of up to 2x60 (quick) / 2x100 (thorough) actions over alphabets of 2-5 selected values through a running store with a plain witness subscriber, 1-2 selector subscriptions and 1-2 producers (Keep actions interspersed, in a third of the cases also actions vetoed in before_reduce, which are still notified, in a third one more selector subscription made by a client thread mid-run, in a third the Subscription handle of the first subscription is dropped at once; in a third of these a subscription is ended mid-run by a client thread or from inside the first subscription's own callback, so that a notification already in flight still reaches it); in a third of the cases one SelectorSubscriber object is registered on two stores fed concurrently (it must never deliver the value it delivered last). Oracle O-SELECT: delivered (value, action) list = consecutive-duplicate removal of the notification stream. Non-trivial = the stream contains an adjacent repeat AND a later return to an earlier value; distinct by scenario hash (random part) / by sequence (enumeration).",
    raw: c16_raw,
    build: c16_build,
    check: c16_check,
    budget: Budget { r_cases: (2000, 20000), s_cases: (2000, 8000), s_scheds: (8, 32) },
    liveness: false,
    enumerate: None,
    extra: Some(c16_extra),
    borrow: &[],
    assumptions: &["the enumeration runs on the real crate only (guard off)"],
};

// =============================================================================== C17

/// The 20-symbol option alphabet. Component ids are allocated per occurrence.
#[derive(Clone, Copy, Debug, PartialEq)]
enum Sym {
    NameA,
    NameB,
    NameEmpty,
    WithReducer,
    WithReducers2,
    WithReducers0,
    AddReducer,
    WithoutReducer,
    Cap0,
    Cap1,
    Cap3,
    PolBlock,
    PolOldest,
    PolLatest,
    WithMw,
    WithMws2,
    WithMws0,
    AddMw,
    /// add_middleware with the *same instance* that was configured last (a fresh one if none):
    /// "add_* appends" also when the object is already in the list
    AddMwSame,
    /// a name that consists of white space only: not empty, so it must build and be used as it is
    NameBlank,
}
const SYMS: [Sym; 20] = [
    Sym::NameA, Sym::NameB, Sym::NameEmpty, Sym::WithReducer, Sym::WithReducers2, Sym::WithReducers0, Sym::AddReducer, Sym::WithoutReducer,
    Sym::Cap0, Sym::Cap1, Sym::Cap3, Sym::PolBlock, Sym::PolOldest, Sym::PolLatest, Sym::WithMw, Sym::WithMws2, Sym::WithMws0, Sym::AddMw, Sym::AddMwSame, Sym::NameBlank,
];

/// record-of-last-settings model
#[derive(Clone, Debug)]
struct Model {
    name: String,
    cap: usize,
    pol: Pol,
    reds: Vec<CompId>,
    without: bool,
    mws: Vec<CompId>,
    /// `without_reducer()` later followed by `with_reducers(vec![])`: left unspecified
    ambiguous: bool,
}

fn c17_scenario(with_ctor_reducer: bool, seq: &[Sym]) -> Scenario {
    let mut b = ScnB::new();
    let g = b.gate();
    let mut fresh = |b: &mut ScnB| {
        let c = b.comp();
        b.comp_mut(c).gate = Some(g);
        c
    };
    let first = if with_ctor_reducer { Some(fresh(&mut b)) } else { None };
    let mut m = Model { name: "store".into(), cap: 16, pol: Pol::Block, reds: first.into_iter().collect(), without: false, mws: vec![], ambiguous: false };
    let mut calls = vec![];
    for sy in seq {
        match sy {
            Sym::NameA | Sym::NameB | Sym::NameEmpty | Sym::NameBlank => {
                // "beta" comes padded with white space: the store must use exactly the configured name
                let n = match sy {
                    Sym::NameA => "alpha",
                    Sym::NameB => " beta ",
                    Sym::NameBlank => " ",
                    _ => "",
                };
                m.name = n.to_string();
                calls.push(BCall::WithName(n.to_string()));
            }
            Sym::WithReducer => {
                let c = fresh(&mut b);
                m.reds = vec![c];
                m.without = false;
                calls.push(BCall::WithReducer(c));
            }
            Sym::WithReducers2 => {
                let (c1, c2) = (fresh(&mut b), fresh(&mut b));
                m.reds = vec![c1, c2];
                m.without = false;
                calls.push(BCall::WithReducers(vec![c1, c2]));
            }
            Sym::WithReducers0 => {
                if m.without {
                    m.ambiguous = true;
                }
                m.reds = vec![];
                m.without = false;
                calls.push(BCall::WithReducers(vec![]));
            }
            Sym::AddReducer => {
                let c = fresh(&mut b);
                m.reds.push(c);
                calls.push(BCall::AddReducer(c));
            }
            Sym::WithoutReducer => {
                m.without = true;
                calls.push(BCall::WithoutReducer);
            }
            Sym::Cap0 | Sym::Cap1 | Sym::Cap3 => {
                let n = match sy {
                    Sym::Cap0 => 0,
                    Sym::Cap1 => 1,
                    _ => 3,
                };
                m.cap = n;
                calls.push(BCall::WithCapacity(n));
            }
            Sym::PolBlock | Sym::PolOldest | Sym::PolLatest => {
                let p = match sy {
                    Sym::PolBlock => Pol::Block,
                    Sym::PolOldest => Pol::DropOldest,
                    _ => Pol::DropLatest,
                };
                m.pol = p;
                calls.push(BCall::WithPolicy(p));
            }
            Sym::WithMw => {
                let c = fresh(&mut b);
                m.mws = vec![c];
                calls.push(BCall::WithMiddleware(c));
            }
            Sym::WithMws2 => {
                let (c1, c2) = (fresh(&mut b), fresh(&mut b));
                m.mws = vec![c1, c2];
                calls.push(BCall::WithMiddlewares(vec![c1, c2]));
            }
            Sym::WithMws0 => {
                m.mws = vec![];
                calls.push(BCall::WithMiddlewares(vec![]));
            }
            Sym::AddMw => {
                let c = fresh(&mut b);
                m.mws.push(c);
                calls.push(BCall::AddMiddleware(c));
            }
            Sym::AddMwSame => {
                let c = match m.mws.last() {
                    Some(c) => *c,
                    None => fresh(&mut b),
                };
                m.mws.push(c);
                calls.push(BCall::AddMiddleware(c));
            }
        }
    }
    // the StoreSpec records the *expected* configuration; the store itself is built from `calls`
    let s = b.store(&m.name, m.cap, m.pol, Ctor::Calls { first, calls });
    b.s.stores[s].reducers = m.reds.clone();
    b.s.stores[s].middlewares = m.mws.clone();
    let expect_err = m.cap == 0 || m.name.is_empty() || (m.reds.is_empty() && !m.without);
    // encode expectation for the oracle: droppable flag is unused here, use store name suffix-free
    // fields: we stash the booleans in the gate count parity-free way via an extra marker action
    let marker = b.action(s, if expect_err { 1 } else { 0 } + if m.ambiguous { 2 } else { 0 });
    let _ = marker;
    if !expect_err && !m.ambiguous {
        // behavioural probes of the built store
        let has_comp = !m.reds.is_empty() || !m.mws.is_empty();
        let th = b.thread();
        let primer = b.action(s, 0);
        b.s.threads[th].push(Op::Dispatch { act: primer, via: Via::Inherent });
        if has_comp && m.cap <= 3 {
            // capacity / policy probe with the pipeline held at the primer
            let done = b.gate();
            b.s.threads[th].push(Op::GateAwait { gate: g, entered: 1 });
            let n = if m.pol == Pol::Block { m.cap } else { m.cap + 2 };
            for _ in 0..n {
                let a = b.action(s, 0);
                b.s.threads[th].push(Op::Dispatch { act: a, via: Via::Dispatcher });
            }
            b.s.threads[th].push(Op::GateSignal { gate: done });
            if m.pol == Pol::Block {
                let a = b.action(s, 0);
                b.s.threads[th].push(Op::Dispatch { act: a, via: Via::Inherent });
            }
            let c = b.thread();
            b.s.threads[c].push(Op::GateAwait { gate: done, entered: 1 });
            b.s.threads[c].push(Op::GetMetrics { store: s });
            b.s.threads[c].push(Op::GateOpen { gate: g });
        } else {
            b.s.threads[th].push(Op::GateOpen { gate: g });
        }
    }
    b.s.epilogue.push(Op::GateOpen { gate: g });
    b.s.epilogue.push(Op::Stop { store: s, via_trait: false });
    b.s.epilogue.push(Op::GetMetrics { store: s });
    b.finish()
}

fn seq_of(mut code: usize, len: usize) -> Vec<Sym> {
    let mut v = vec![];
    for _ in 0..len {
        v.push(SYMS[code % SYMS.len()]);
        code /= SYMS.len();
    }
    v
}

pub fn c17_enumerate(tier: Tier, sched: bool) -> EnumSpec {
    let max_len = if tier == Tier::Thorough { 4 } else { 3 };
    // (ctor, len, code)
    let mut items: Vec<(bool, usize, usize)> = vec![];
    let mut k = 0usize;
    for ctor in [false, true] {
        for len in 0..=max_len {
            for code in 0..SYMS.len().pow(len as u32) {
                // schedule-controlled flavour: a 10 % sample (all sequences of length <= 2)
                if !sched || len <= 2 || k % 10 == 0 {
                    items.push((ctor, len, code));
                }
                k += 1;
            }
        }
    }
    EnumSpec { n: items.len(), make: Box::new(move |i| c17_scenario(items[i].0, &seq_of(items[i].2, items[i].1))), exhaustive: !sched }
}

fn c17_raw(_tier: Tier) -> proptest::strategy::BoxedStrategy<Raw> {
    raw_strategy(1, 9)
}

/// random longer sequences (length 5..=9) on top of the exhaustive short ones
pub fn c17_build(raw: &Raw, _tier: Tier, _sched: bool) -> Scenario {
    let ops = raw.threads.first().cloned().unwrap_or_default();
    let mut seq: Vec<Sym> = ops.iter().map(|r| SYMS[pick(r.k, SYMS.len())]).collect();
    while seq.len() < 5 {
        seq.push(SYMS[pick(knob(raw, seq.len()), SYMS.len())]);
    }
    c17_scenario(knob(raw, 15) % 2 == 1, &seq)
}

pub fn c17_check(scn: &Scenario, h: &History) -> Outcome {
    let mut out = Outcome::default();
    let s = 0;
    let sp = &scn.stores[s];
    let marker = scn.actions.first().map(|a| a.sel).unwrap_or(0);
    let expect_err = marker & 1 == 1;
    let ambiguous = marker & 2 == 2;
    let Ctor::Calls { calls, first } = &sp.ctor else { return out };
    let describe = || format!("{}{:?}", if first.is_some() { "new_with_reducer(r) + " } else { "new() + " }, calls);
    // liveness: the capacity probe blocks when fewer than `capacity` dispatches fit
    match &h.end {
        End::Completed => {}
        End::Deadlock(m) => {
            out.viol(format!("builder sequence {}: behavioural probe deadlocked ({}): the built store does not provide the configured capacity {} / policy {:?}. {}", describe(), m.chars().take(120).collect::<String>(), sp.capacity, sp.policy, blocked_summary(scn, h)));
            return out;
        }
        _ => return out,
    }
    if !h.slow.is_empty() {
        out.inconclusive = Some("slow-op>=2.5s".into());
        return out;
    }
    let d = Digest::new(scn, h);
    let built = d.stores[s].built;
    let distinct_opts = {
        let mut kinds = std::collections::HashSet::new();
        let mut repeated = false;
        for c in calls {
            let k = match c {
                BCall::WithName(_) => 0,
                BCall::WithReducer(_) | BCall::WithReducers(_) | BCall::AddReducer(_) | BCall::WithoutReducer => 1,
                BCall::WithCapacity(_) => 2,
                BCall::WithPolicy(_) => 3,
                _ => 4,
            };
            if !kinds.insert(k) {
                repeated = true;
            }
        }
        kinds.len() >= 2 || repeated
    };
    if distinct_opts {
        out.nontrivial = true;
    }
    match (built, expect_err, ambiguous) {
        (Some(false), true, _) => {
            out.class("init-error-expected");
            return out;
        }
        (Some(false), false, true) | (Some(true), true, true) => {
            out.class("unspecified-sequence");
        }
        (Some(false), false, false) => {
            out.viol(format!("builder sequence {}: build() failed but capacity {} > 0, name {:?} non-empty and a reducer (or without_reducer) is configured", describe(), sp.capacity, sp.name));
            return out;
        }
        (Some(true), true, false) => {
            out.viol(format!("builder sequence {}: build() succeeded although {}", describe(), if sp.capacity == 0 { "the capacity is 0" } else if sp.name.is_empty() { "the name is empty" } else { "there is no reducer and without_reducer() is not in effect" }));
            return out;
        }
        _ => {}
    }
    if built != Some(true) {
        return out;
    }
    out.class("store-built");
    // --- probes: the primer's callback order shows reducer chain and middleware order
    let primer = 1u32; // action 0 is the marker
    let mut reds = vec![];
    let mut mws = vec![];
    for r in &h.recs {
        match &r.ev {
            Ev::RedIn { comp, act, .. } if *act == primer => reds.push(*comp),
            Ev::MwIn { comp, act, hook: Hook::BeforeReduce, .. } if *act == primer => mws.push(*comp),
            _ => {}
        }
    }
    if !ambiguous {
        if reds != sp.reducers {
            out.viol(format!("builder sequence {}: the store runs reducers {:?}, configured (with_* replaces, add_* appends) {:?}", describe(), reds, sp.reducers));
        }
        if mws != sp.middlewares {
            out.viol(format!("builder sequence {}: the store runs middlewares {:?}, configured {:?}", describe(), mws, sp.middlewares));
        }
    }
    // --- name: the reducer context is a worker of the pool named after the store
    if let Some(t) = d.stores[s].red_tid {
        let name = &h.threads[t as usize].1;
        // the configured name must be the one in use: it shows in the worker thread's name (the
        // exact naming scheme is not part of the property, the other candidate names must not show)
        let others = ["alpha", "beta", "store"];
        let foreign = others.iter().any(|o| *o != sp.name && !sp.name.contains(o) && name.contains(o));
        if !name.contains(&sp.name) || foreign {
            out.viol(format!("builder sequence {}: the reducer runs on thread {:?}, expected a worker of pool \"{}-pool\"", describe(), name, sp.name));
        }
    }
    // --- capacity / policy probe
    let probe = scn.threads.iter().flatten().any(|o| matches!(o, Op::GateSignal { .. }));
    if probe {
        out.class("capacity-policy-probe");
        let cap = sp.capacity;
        let burst: Vec<&Disp> = d.disps.iter().filter(|x| x.act > primer).collect();
        let order: Vec<ActId> = d.stores[s].runs.iter().map(|r| r.act).collect();
        let held_metrics = d.ops.values().find(|o| o.th == 2 && matches!(d.op(o.th, o.ix), Some(Op::GetMetrics { .. }))).and_then(|o| match &o.res {
            Some(Res::Metrics(m)) => Some(*m),
            _ => None,
        });
        match sp.policy {
            Pol::Block => {
                // all reduced; the (cap+1)-th dispatch returned only after the gate was opened
                for x in &burst {
                    if !order.contains(&x.act) {
                        out.viol(format!("builder sequence {}: BlockOnFull store lost action {}", describe(), x.act));
                    }
                    if x.ok == Some(false) {
                        out.viol(format!("builder sequence {}: BlockOnFull store rejected action {}", describe(), x.act));
                    }
                }
                let open_pos = d.ops.values().find(|o| o.th == 2 && matches!(d.op(o.th, o.ix), Some(Op::GateOpen { .. }))).map(|o| o.inv);
                if let (Some(extra), Some(op)) = (burst.last(), open_pos) {
                    if burst.len() == cap + 1 && extra.ret.map(|r| r < op).unwrap_or(false) {
                        out.viol(format!("builder sequence {}: with the pipeline held, {} dispatches returned although the configured capacity is {}", describe(), cap + 1, cap));
                    }
                }
                if let Some(m) = held_metrics {
                    if m[1] != 0 {
                        out.viol(format!("builder sequence {}: BlockOnFull store reports {} dropped actions", describe(), m[1]));
                    }
                }
            }
            Pol::DropOldest | Pol::DropLatest => {
                let n = burst.len();
                let surv: Vec<ActId> = burst.iter().map(|x| x.act).filter(|a| order.contains(a)).collect();
                let all: Vec<ActId> = burst.iter().map(|x| x.act).collect();
                let expect: Vec<ActId> = if sp.policy == Pol::DropOldest { all[n - n.min(cap)..].to_vec() } else { all[..n.min(cap)].to_vec() };
                // closing on a still-full queue costs DropOldest one more action (which one depends
                // on the race with the reducer): the probe opens the gate before the stop but does
                // not wait for the survivors, so one missing survivor is accepted there
                let ok = surv == expect
                    || (sp.policy == Pol::DropOldest && surv.len() + 1 == expect.len() && {
                        let mut it = expect.iter();
                        surv.iter().all(|a| it.any(|e| e == a))
                    });
                if !ok {
                    out.viol(format!("builder sequence {}: {:?} with capacity {}: burst {:?} on a held pipeline, survivors {:?}, expected {:?}", describe(), sp.policy, cap, all, surv, expect));
                }
                if let Some(m) = held_metrics {
                    if m[1] != n - n.min(cap) {
                        out.viol(format!("builder sequence {}: {:?} with capacity {}: dropped-actions metric after a burst of {} is {}, expected {}", describe(), sp.policy, cap, n, m[1], n - n.min(cap)));
                    }
                }
                for x in &burst {
                    let discarded = !expect.contains(&x.act);
                    if sp.policy == Pol::DropLatest && x.ok == Some(discarded) {
                        out.viol(format!("builder sequence {}: DropLatest: Dispatcher::dispatch of action {} returned {:?}, discarded = {}", describe(), x.act, x.ok, discarded));
                    }
                }
            }
        }
    }
    out
}

pub static C17: Profile = Profile {
    id: "C17",
    rule: "enumeration: every builder call sequence of length 0..=3 (quick) / 0..=4 (thorough) over the 20-symbol option alphabet {with_name(\"alpha\"|\" beta \"|\" \"|\"\"), with_reducer, with_reducers([r,r']|[]), add_reducer, without_reducer, with_capacity(0|1|3), with_policy x3, with_middleware, with_middlewares([m,m']|[]), add_middleware(new instance), add_middleware(the instance configured last)} on both constructors (2 x 8421 / 2 x 168421), plus proptest sequences of length 5-9. Oracle O-BUILD: record-of-last-settings model for Ok/InitError; the built store is probed: callback order of one action (reducer chain, middleware order), pool thread name, and - with the pipeline held at a primer - exact capacity and policy (burst survivors, dropped metric, Ok/Err per call; under BlockOnFull `capacity` dispatches must fit and the next must wait: deadlock = violation under the schedule-controlled driver). Non-trivial = the sequence sets >= 2 different options or one option twice; distinct = distinct sequences.",
    raw: c17_raw,
    build: c17_build,
    check: c17_check,
    budget: Budget { r_cases: (1000, 5000), s_cases: (400, 2000), s_scheds: (4, 8) },
    liveness: true,
    enumerate: Some(c17_enumerate),
    extra: None,
    borrow: &[],
    assumptions: &[
        "sequences in which without_reducer() is later followed by with_reducers(vec![]) are left unspecified (either outcome accepted)",
        "the capacity/policy probe is run for configured capacities <= 3 and when at least one reducer or middleware exists to hold the pipeline",
    ],
};
