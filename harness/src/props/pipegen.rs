//! Shared generator for "producers hammer one store" scenarios (C02, C03, C07, C08, C18 ...).
use super::common::*;
use crate::build::*;
use crate::profile::*;
use crate::scenario::*;

#[derive(Clone)]
pub struct PipeOpts {
    pub name: &'static str,
    pub reducers: (usize, usize),
    pub mws: (usize, usize),
    pub prelude_subs: (usize, usize),
    /// AddReducer / AddMiddleware / Subscribe from client threads mid-run
    pub runtime_add: bool,
    /// non-Continue verdicts in every hook (else only Continue)
    pub verdicts: bool,
    pub keeps: bool,
    pub effects: bool,
    pub followups: bool,
    pub panics: bool,
    /// client DispatchThunk ops
    pub thunk_ops: bool,
    /// middleware dispatching follow-ups through its dispatcher (forces a queue that cannot fill)
    pub mw_dispatch: bool,
    /// a direct subscriber dispatching a follow-up into its own store from inside on_notify, i.e.
    /// from the reducer context through the inherent `dispatch` (forces a queue that cannot fill)
    pub cb_dispatch: bool,
    /// GetState ops on client threads
    pub readers: bool,
    /// subscribers / middleware read the state inside their callbacks
    pub callback_reads: bool,
    pub pols: &'static [Pol],
    pub caps: &'static [usize],
    pub racing_stop: bool,
    pub stalls: bool,
    pub metrics_reads: bool,
    /// Unsubscribe ops on prelude / run-time subscribers from client threads
    pub unsubs: bool,
    /// dispatches after the stop (each thread keeps going)
    pub min_threads: usize,
}

impl PipeOpts {
    pub const fn base(name: &'static str) -> PipeOpts {
        PipeOpts {
            name,
            reducers: (1, 3),
            mws: (0, 2),
            prelude_subs: (0, 2),
            runtime_add: false,
            verdicts: false,
            keeps: true,
            effects: false,
            followups: false,
            panics: false,
            thunk_ops: false,
            mw_dispatch: false,
            cb_dispatch: false,
            readers: false,
            callback_reads: false,
            pols: &POLS_MOSTLY_BLOCK,
            caps: &CAPS,
            racing_stop: false,
            stalls: true,
            metrics_reads: false,
            unsubs: false,
            min_threads: 1,
        }
    }
}

fn range(k: u16, (lo, hi): (usize, usize)) -> usize {
    lo + pick(k, hi - lo + 1)
}

fn verdict_bits(bits: u32) -> Verdict {
    match bits & 15 {
        0..=11 => Verdict::Continue,
        12 => Verdict::Done,
        13 => Verdict::Break,
        14 => Verdict::Err,
        _ => Verdict::Done,
    }
}

pub fn gen_pipeline(raw: &Raw, o: &PipeOpts) -> Scenario {
    let mut b = ScnB::new();
    let mut cap = o.caps[pick(knob(raw, 0), o.caps.len())];
    let mut policy = o.pols[pick(knob(raw, 1), o.pols.len())];
    let ctor = CTORS[pick(knob(raw, 2), 3)].clone();
    let use_mw_dispatch = o.mw_dispatch && knob(raw, 8) % 3 == 0;
    let use_cb_dispatch = o.cb_dispatch && knob(raw, 8) % 3 == 1;
    if (use_mw_dispatch || use_cb_dispatch) && policy == Pol::Block {
        cap = 512; // a reducer-context dispatch into a full blocking queue is a self-deadlock (C13 excludes it)
    }
    // half of the `Simple` cases take the shape the convenience constructors can express
    // (`StoreImpl::new`, `new_with_reducer`, `new_with_name`: defaults for everything else), so
    // that those entry points are really used; reducers / middlewares may still arrive at run time
    let simple_shape = matches!(ctor, Ctor::Simple) && !use_mw_dispatch && !use_cb_dispatch && o.pols.contains(&Pol::Block) && o.reducers.0 <= 1 && o.mws.0 == 0 && knob(raw, 2) % 2 == 0;
    let mut name = o.name;
    if simple_shape {
        cap = 16;
        policy = Pol::Block;
        if knob(raw, 3) % 2 == 0 {
            name = "store";
        }
    }
    let s = b.store(name, cap, policy, ctor);
    let nred = {
        let n = range(knob(raw, 3), o.reducers);
        if simple_shape { n.min(1) } else { n }
    };
    let mut reds: Vec<CompId> = (0..nred).map(|_| b.reducer(s)).collect();
    let nmw = {
        let n = range(knob(raw, 4), o.mws);
        if simple_shape { 0 } else if use_mw_dispatch { n.max(1) } else { n }
    };
    let mut mws: Vec<CompId> = (0..nmw).map(|_| b.middleware(s)).collect();
    if o.callback_reads {
        for m in mws.clone() {
            b.comp_mut(m).reads_state = true;
        }
    }
    // a store without reducers and middlewares has no callback except its subscribers': keep one
    // observer, or nothing the pipeline does with an action would be visible in the log
    let nsub = range(knob(raw, 5), o.prelude_subs).max(if (nred == 0 && nmw == 0) || use_cb_dispatch { 1 } else { 0 });
    let mut all_subs: Vec<SubId> = vec![];
    for i in 0..nsub {
        let sub = b.sub(SubKind::Direct);
        if o.callback_reads && (knob(raw, 9) >> i) & 1 == 0 {
            b.sub_mut(sub).reads_state = true;
        }
        b.s.prelude.push(Op::Subscribe { store: s, sub });
        if i == 0 && nred == 0 && nmw == 0 {
            continue; // the observer: nobody unsubscribes it
        }
        all_subs.push(sub);
    }
    let racing_stop = o.racing_stop && knob(raw, 6) % 3 == 0;
    let mut added = 0;
    let mut acts: Vec<ActId> = vec![];
    let mut threads: Vec<&Vec<RawOp>> = raw.threads.iter().collect();
    let empty = vec![];
    while threads.len() < o.min_threads {
        threads.push(&empty);
    }
    let nthreads = threads.len();
    for (t, ops) in threads.iter().enumerate() {
        let th = b.thread();
        for r in ops.iter() {
            let k = r.k % 32;
            let op = match k {
                0..=19 => {
                    let ao = ActOpts { reducers: &reds, middlewares: &mws, effects: o.effects, followups: o.followups, veto: false, keeps: o.keeps, panics: o.panics };
                    let a = scripted_action(&mut b, s, r, &ao);
                    if o.verdicts && !mws.is_empty() && (r.k >> 8) % 3 == 0 {
                        let bits = (r.b as u32) | ((r.c as u32) << 16);
                        let mut i = 0;
                        for mw in &mws {
                            for h in [Hook::BeforeReduce, Hook::BeforeEffect, Hook::BeforeDispatch] {
                                let v = verdict_bits(bits >> (4 * (i % 8)));
                                i += 1;
                                if v != Verdict::Continue {
                                    b.act_mut(a).verdicts.push((*mw, h, v));
                                }
                            }
                        }
                    }
                    if use_mw_dispatch && (r.k >> 5) % 4 == 0 {
                        let f = b.action(s, 0);
                        let mw = mws[pick(r.b, mws.len())];
                        let hook = [Hook::BeforeReduce, Hook::BeforeEffect, Hook::BeforeDispatch][(r.c % 3) as usize];
                        b.act_mut(a).mw_dispatch.push((mw, hook, f));
                    }
                    if o.stalls && (r.k >> 7) % 8 == 0 && !reds.is_empty() {
                        let c = reds[pick(r.a, reds.len())];
                        b.act_mut(a).red_stall.push((c, stall_of(r.b)));
                    }
                    acts.push(a);
                    Op::Dispatch { act: a, via: via_of(r) }
                }
                20 | 21 if o.readers => Op::GetState { store: s },
                22 if o.thunk_ops => {
                    let f1 = b.action(s, 1);
                    let f2 = b.action(s, 2);
                    let e = b.eff(EffKind::Thunk(vec![f1, f2]), false, stall_of(r.a));
                    Op::DispatchThunk { store: s, eff: e }
                }
                23 if o.runtime_add && added < 3 => {
                    added += 1;
                    let c = b.comp();
                    reds.push(c);
                    Op::AddReducer { store: s, comp: c }
                }
                24 if o.runtime_add && added < 3 => {
                    added += 1;
                    let c = b.comp();
                    mws.push(c);
                    Op::AddMiddleware { store: s, comp: c }
                }
                25 if o.runtime_add && added < 3 => {
                    added += 1;
                    let sub = b.sub(SubKind::Direct);
                    all_subs.push(sub);
                    Op::Subscribe { store: s, sub }
                }
                29 | 30 if o.unsubs && !all_subs.is_empty() => Op::Unsubscribe { store: s, sub: all_subs[pick(r.a, all_subs.len())] },
                26 if o.metrics_reads => Op::GetMetrics { store: s },
                27 | 28 if o.stalls => Op::Stall(stall_of(r.a)),
                _ if o.readers => Op::GetState { store: s },
                _ => Op::Stall(Stall::Yield),
            };
            b.s.threads[th].push(op);
        }
        if racing_stop && t + 1 == nthreads {
            let at = pick(knob(raw, 7), b.s.threads[th].len() + 1);
            b.s.threads[th].insert(at, Op::Stop { store: s, via_trait: knob(raw, 10) % 2 == 1 });
        }
    }
    // a quarter of the cases with unsubscriptions: one subscriber removes another one (or itself)
    // from inside its callback, i.e. while the notification round it belongs to is under way
    if o.unsubs && knob(raw, 11) % 4 == 0 && !all_subs.is_empty() && !acts.is_empty() {
        let host = all_subs[pick(knob(raw, 12), all_subs.len())];
        let victim = all_subs[pick(knob(raw, 13), all_subs.len())];
        let trigger = acts[pick(knob(raw, 14), acts.len())];
        b.sub_mut(host).on_notify_ops.push((trigger, vec![Op::Unsubscribe { store: s, sub: victim }]));
    }
    // a quarter of the cases with run-time registration: a prelude subscriber registers a
    // middleware, a reducer or another subscriber from inside its callback (the subscriber phase
    // holds none of the store's lists, so this is as legal as doing it from a client thread)
    if o.runtime_add && knob(raw, 11) % 4 == 1 && !acts.is_empty() {
        if let Some(host) = b.s.prelude.iter().find_map(|o| match o { Op::Subscribe { sub, .. } => Some(*sub), _ => None }) {
            let trigger = acts[pick(knob(raw, 12), acts.len())];
            if !b.sub_mut(host).on_notify_ops.iter().any(|(t, _)| *t == trigger) {
                let op = match knob(raw, 13) % 3 {
                    0 => Op::AddMiddleware { store: s, comp: b.comp() },
                    1 => Op::AddReducer { store: s, comp: b.comp() },
                    _ => Op::Subscribe { store: s, sub: b.sub(SubKind::Direct) },
                };
                b.sub_mut(host).on_notify_ops.push((trigger, vec![op]));
            }
        }
    }
    // re-entrant use: up to three notifications make a prelude subscriber dispatch a follow-up
    // into the same store from inside on_notify (it must be queued, not run inside the callback)
    if use_cb_dispatch && !acts.is_empty() {
        let host = b.s.prelude.iter().find_map(|o| match o { Op::Subscribe { sub, .. } => Some(*sub), _ => None }).unwrap();
        for j in 0..1 + (knob(raw, 12) % 3) as usize {
            let trigger = acts[pick(knob(raw, 13).rotate_left(4 * j as u32), acts.len())];
            if b.sub_mut(host).on_notify_ops.iter().any(|(t, _)| *t == trigger) {
                continue;
            }
            let f = b.action(s, j as u8);
            b.sub_mut(host).on_notify_ops.push((trigger, vec![Op::Dispatch { act: f, via: VIAS[(knob(raw, 14) as usize + j) % 3].clone() }]));
        }
    }
    b.s.epilogue.push(Op::Stop { store: s, via_trait: false });
    b.s.epilogue.push(Op::GetState { store: s });
    if o.metrics_reads {
        b.s.epilogue.push(Op::GetMetrics { store: s });
    }
    b.finish()
}
