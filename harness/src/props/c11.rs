//! C11 — effects run exactly once, outside the reducer context.
use super::common::*;
use crate::build::*;
use crate::digest::*;
use crate::log::*;
use crate::pipe::Kind;
use crate::profile::*;
use crate::scenario::*;

fn raw(tier: Tier) -> proptest::strategy::BoxedStrategy<Raw> {
    match tier {
        Tier::Quick => raw_strategy(3, 8),
        Tier::Thorough => raw_strategy(3, 16),
    }
}

/// knob 0: ending mode. 0 = wait until every follow-up was notified, then stop (quiescent);
/// 1 = stop right after the last dispatch (backlog); 2 = a racing stop thread.
/// "A slow effect neither delays nor breaks later actions": three effects park on workers until the
/// follow-up of a *later* action's Effect::Action has been reduced and notified. With a pool that
/// has room for them and one more (the crate's default: twice the number of CPUs) nothing waits for
/// anything; a store that cannot run a fourth effect while three are busy never gets there. (Only
/// generated on machines with >= 4 CPUs; the schedule-controlled stand-in pool is unbounded.)
fn parked_effects(raw: &Raw) -> Scenario {
    let mut b = ScnB::new();
    let s = b.store("c11a", 16, Pol::Block, CTORS[pick(knob(raw, 4), 3)].clone());
    let reds = vec![b.reducer(s), b.reducer(s)];
    let sub = b.sub(SubKind::Direct);
    b.s.prelude.push(Op::Subscribe { store: s, sub });
    let fg = b.gate();
    let th = b.thread();
    for i in 0..3 {
        let a = b.action(s, i as u8);
        let kind = if (knob(raw, 5) >> i) & 1 == 0 { EffKind::Task } else { EffKind::Function };
        let mut e = b.eff(kind, false, Stall::None);
        e.ops = vec![Op::GateAwait { gate: fg, entered: 1 }];
        b.act_mut(a).effects.push((reds[i % 2], e));
        b.s.threads[th].push(Op::Dispatch { act: a, via: VIAS[(knob(raw, 6) as usize + i) % 3] });
    }
    let bact = b.action(s, 3);
    let f = b.action(s, 0);
    b.act_mut(f).signal = Some(fg);
    let e = b.eff(EffKind::Action(f), false, Stall::None);
    b.act_mut(bact).effects.push((reds[0], e));
    b.s.threads[th].push(Op::Dispatch { act: bact, via: Via::Inherent });
    b.s.epilogue.push(Op::GateAwait { gate: fg, entered: 1 });
    b.s.epilogue.push(Op::Stop { store: s, via_trait: false });
    b.s.epilogue.push(Op::GetState { store: s });
    b.finish()
}

pub fn build(raw: &Raw, _tier: Tier, _sched: bool) -> Scenario {
    if knob(raw, 13) % 8 == 0 && std::thread::available_parallelism().map(|n| n.get() >= 4).unwrap_or(false) {
        return parked_effects(raw);
    }
    let mut b = ScnB::new();
    let mode = knob(raw, 0) % 3;
    let two_stores = knob(raw, 1) % 3 == 0;
    let nstores = if two_stores { 2 } else { 1 };
    let mut stores = vec![];
    let fg = b.gate();
    for i in 0..nstores {
        let cap = CAPS[pick(knob(raw, 2 + i), CAPS.len())];
        let s = b.store(if i == 0 { "c11a" } else { "c11b" }, cap, Pol::Block, CTORS[pick(knob(raw, 4), 3)].clone());
        let nred = 2 + pick(knob(raw, 5 + i), 2);
        let reds: Vec<CompId> = (0..nred).map(|_| b.reducer(s)).collect();
        let nmw = pick(knob(raw, 7 + i), 3);
        let mws: Vec<CompId> = (0..nmw).map(|_| b.middleware(s)).collect();
        let sub = b.sub(SubKind::Direct);
        b.s.prelude.push(Op::Subscribe { store: s, sub });
        stores.push((s, reds, mws));
    }
    let mut per_store_acts: Vec<Vec<ActId>> = vec![vec![]; nstores];
    for ops in raw.threads.iter() {
        let th = b.thread();
        for r in ops {
            let (s, reds, mws) = stores[(r.k as usize >> 6) % nstores].clone();
            let op = match r.k % 16 {
                0..=11 => {
                    let o = ActOpts { reducers: &reds, middlewares: &mws, effects: true, followups: true, veto: false, keeps: true, panics: true };
                    // bias towards effects: force the effect nibble high half of the time
                    let mut r2 = *r;
                    if r.k & 0x100 != 0 {
                        r2.b |= 0x8;
                    }
                    let a = scripted_action(&mut b, s, &r2, &o);
                    // verdicts in the phases after the reducers: none of them may keep an effect
                    // that was left in the list from running (DoneAction / Err in before_effect
                    // remove nothing; BreakChain only spares the later middlewares' removals)
                    for (j, mw) in mws.iter().enumerate() {
                        let v = match (r.a >> (3 * j)) & 7 {
                            5 => Some(Verdict::Done),
                            6 => Some(Verdict::Break),
                            7 => Some(Verdict::Err),
                            _ => None,
                        };
                        if let Some(v) = v {
                            let hook = if (r.a >> 9) & 1 == 0 { Hook::BeforeEffect } else { Hook::BeforeDispatch };
                            b.act_mut(a).verdicts.push((*mw, hook, v));
                        }
                    }
                    // before_effect removal masks
                    let effs: Vec<EffId> = b.s.actions[a as usize].effects.iter().map(|(_, e)| e.id).collect();
                    for (j, mw) in mws.iter().enumerate() {
                        if !effs.is_empty() && (r.c >> (10 + j)) & 1 == 1 {
                            let e = effs[(r.c as usize >> 4) % effs.len()];
                            b.act_mut(a).removes.push((*mw, vec![e]));
                        }
                    }
                    // a middleware may also *add* an effect of its own in before_effect (the store
                    // runs whatever is left in the list; nothing of the reducers' may get lost over it)
                    if !mws.is_empty() && (r.c >> 14) & 1 == 1 {
                        let e = b.eff(EffKind::Task, false, Stall::None);
                        let mw = mws[(r.c as usize >> 8) % mws.len()];
                        b.act_mut(a).adds.push((mw, e));
                    }
                    let follow: Vec<ActId> = b.s.actions[a as usize]
                        .effects
                        .iter()
                        .flat_map(|(_, e)| match &e.kind {
                            EffKind::Action(f) => vec![*f],
                            EffKind::Thunk(l) => l.clone(),
                            _ => vec![],
                        })
                        .collect();
                    for f in follow {
                        b.act_mut(f).signal = Some(fg);
                    }
                    per_store_acts[s].push(a);
                    Op::Dispatch { act: a, via: via_of(r) }
                }
                12 | 13 => {
                    let f = b.action(s, 0);
                    b.act_mut(f).signal = Some(fg);
                    per_store_acts[s].push(u32::MAX); // placeholder: counted below through the op list
                    let e = b.eff(EffKind::Thunk(vec![f]), r.a % 5 == 0, stall_of(r.a));
                    Op::DispatchThunk { store: s, eff: e }
                }
                14 => {
                    let e = b.eff(EffKind::Task, r.a % 5 == 0, stall_of(r.a));
                    Op::DispatchTask { store: s, eff: e }
                }
                _ => Op::Stall(stall_of(r.a)),
            };
            b.s.threads[th].push(op);
        }
    }
    // expected follow-up notifications (all producers use the blocking policy, so every dispatch
    // is accepted; client thunks always run while the store is open)
    let mut expected = 0u32;
    for (s, acts) in per_store_acts.iter().enumerate() {
        for a in acts {
            if *a == u32::MAX {
                expected += 1;
                continue;
            }
            let p = predict(&b.s, s, *a);
            for e in &p.surviving {
                match &e.kind {
                    EffKind::Action(_) => expected += 1,
                    EffKind::Thunk(l) => expected += l.len() as u32,
                    _ => {}
                }
            }
        }
    }
    match mode {
        0 => {
            if expected > 0 {
                b.s.epilogue.push(Op::GateAwait { gate: fg, entered: expected });
            }
        }
        1 => {}
        _ => {
            let st = b.thread();
            let lead = pick(knob(raw, 10), 4);
            for i in 0..lead {
                b.s.threads[st].push(Op::Stall(stall_of(knob(raw, 11).wrapping_add(i as u16))));
            }
            b.s.threads[st].push(Op::Stop { store: 0, via_trait: false });
        }
    }
    for (s, _, _) in &stores {
        b.s.epilogue.push(Op::Stop { store: *s, via_trait: false });
    }
    // half of the cases: work handed to a store that has already been stopped ("after stop() has
    // returned nothing further runs"); the pauses give a worker that wrongly survived time to show up
    if knob(raw, 12) % 2 == 0 {
        for (s, _, _) in &stores {
            let e = b.eff(EffKind::Task, false, Stall::None);
            b.s.epilogue.push(Op::DispatchTask { store: *s, eff: e });
            let f = b.action(*s, 0);
            let e = b.eff(EffKind::Thunk(vec![f]), false, Stall::None);
            b.s.epilogue.push(Op::DispatchThunk { store: *s, eff: e });
        }
        b.s.epilogue.push(Op::Stall(Stall::Ms2));
        b.s.epilogue.push(Op::Stall(Stall::Yield));
    }
    for (s, _, _) in &stores {
        b.s.epilogue.push(Op::GetState { store: *s });
    }
    b.finish()
}

pub fn check(scn: &Scenario, h: &History) -> Outcome {
    let mut out = Outcome::default();
    let Some((d, p)) = prepare("C11", true, scn, h, &mut out) else { return out };
    note_others(&p, &[Kind::Isolation], &mut out);
    for m in findings_of(&p, &[Kind::Isolation]) {
        out.viol(m);
    }
    // quiescent ending = the epilogue awaited the follow-up gate before any stop was invoked
    let awaited = d.ops.values().any(|o| o.th == 0 && matches!(d.op(o.th, o.ix), Some(Op::GateAwait { .. })));
    let mut v = vec![];
    let mut lost = vec![];
    check_effects(&d, &p, awaited, &mut v, &mut lost);
    for m in v {
        out.viol(m);
    }
    let obs = effect_obs(&d);
    for (s, sd) in d.stores.iter().enumerate() {
        let runs = &p.runs[s];
        let stop_inv = sd.first_stop_inv.unwrap_or(usize::MAX);
        // effects of actions accepted before stop() was called must have run by the end
        for (e, a) in &lost {
            if d.store_of_act(*a) != s {
                continue;
            }
            let accepted_before_stop = match d.disp_of(*a) {
                Some(x) => x.ok == Some(true) && x.ret.map(|r| r < stop_inv).unwrap_or(false),
                None => false, // follow-up of Effect::Action: dispatched by a worker at an unknown time
            };
            if accepted_before_stop {
                out.viol(format!("effect {} returned for action {} (accepted before stop() was called) was never executed", e, a));
            } else {
                out.class("effect-of-late-action-not-run");
            }
        }
        // every accepted action is still processed, whatever effects panicked before it
        if scn.stores[s].policy == Pol::Block {
            for disp in d.disps.iter().filter(|x| d.store_of_act(x.act) == s && x.ok == Some(true)) {
                if !runs.iter().any(|r| r.act == disp.act) {
                    out.viol(format!("action {} was accepted but never processed (an effect broke or blocked the pipeline?)", disp.act));
                }
            }
        }
        // client thunks / tasks
        for o in d.ops.values() {
            let (eff, is_thunk) = match d.op(o.th, o.ix) {
                Some(Op::DispatchThunk { store, eff }) if *store == s => (eff, true),
                Some(Op::DispatchTask { store, eff }) if *store == s => (eff, false),
                _ => continue,
            };
            let starts = obs.starts.get(&eff.id).cloned().unwrap_or_default();
            if o.inv > sd.first_stop_ret.unwrap_or(usize::MAX) {
                out.class("work-handed-over-after-stop");
            }
            if starts.len() > 1 {
                out.viol(format!("client thunk/task {} ran {} times", eff.id, starts.len()));
            }
            if starts.is_empty() && o.ret.map(|r| r < stop_inv).unwrap_or(false) {
                out.viol(format!("client thunk/task {} was handed over while the store was running but never ran", eff.id));
            }
            for (pos, tid) in &starts {
                if sd.first_stop_ret.map(|sr| *pos > sr).unwrap_or(false) {
                    out.viol(format!("client thunk/task {} started at @{} although stop() of store {} had returned at @{}: after stop() has returned nothing further runs", eff.id, pos, s, sd.first_stop_ret.unwrap()));
                }
                if in_reducer_context(&d, s, *pos, *tid) {
                    out.viol(format!("client thunk/task {} ran in the reducer context", eff.id));
                }
                if *tid == o.tid {
                    out.viol(format!("client thunk/task {} ran synchronously on the calling thread", eff.id));
                }
            }
            if is_thunk {
                if let EffKind::Thunk(l) = &eff.kind {
                    for f in l {
                        for (os, oruns) in p.runs.iter().enumerate() {
                            if os != s && oruns.iter().any(|x| x.act == *f) {
                                out.viol(format!("thunk {} handed to store {} received a dispatcher of store {}", eff.id, s, os));
                            }
                        }
                        let acc = d.disps.iter().any(|x| x.act == *f && x.ok == Some(true));
                        if acc && scn.stores[s].policy == Pol::Block && !runs.iter().any(|r| r.act == *f) {
                            out.viol(format!("follow-up {} of client thunk {} was accepted but never reduced", f, eff.id));
                        }
                    }
                }
            }
        }
        // classes / non-triviality
        let mut kinds = std::collections::HashSet::new();
        let mut multi = false;
        let mut panic_or_follow = false;
        for r in runs {
            if r.effects_returned.len() >= 2 {
                multi = true;
            }
            for e in &r.effects_returned {
                if let Some(sp) = eff_spec(scn, *e) {
                    kinds.insert(std::mem::discriminant(&sp.kind));
                    if sp.panics {
                        panic_or_follow = true;
                        out.class("panicking-effect");
                    }
                    if matches!(sp.kind, EffKind::Action(_) | EffKind::Thunk(_)) {
                        panic_or_follow = true;
                        out.class("follow-up-action");
                    }
                }
            }
            if r.effects_returned.len() != r.effects_surviving.len() {
                out.class("effect-removed");
            }
        }
        if d.stores.len() > 1 {
            out.class("two-stores");
        }
        if awaited {
            out.class("quiescent-stop");
        } else {
            out.class("stop-with-backlog");
        }
        if kinds.len() >= 2 && multi && panic_or_follow {
            out.nontrivial = true;
        }
    }
    out
}

pub static PROFILE: Profile = Profile {
    id: "C11",
    rule: "proptest scenarios: 1-3 producers, 1-2 stores (blocking policy), chains of 2-3 reducers returning Task / Function / Thunk (1-2 follow-ups) / Action effects, up to two effects per action, panicking effects, before_effect removal masks and middleware-added effects, verdicts in the later phases, client dispatch_thunk / dispatch_task; ending either quiescent (all follow-up notifications awaited), with a backlog, or with a racing stop; in half of the cases a task and a thunk are handed to each store after its stop() has returned (they must not run); an eighth of the cases park three effects on workers until a later action's Effect::Action follow-up has been notified. Oracle O-EFFECT: run count and thread of every scripted effect, follow-ups in the producing store's pipeline after their producer, nothing after Ret(stop). Non-trivial = >= 2 effect kinds, >= 1 action with >= 2 effects and a panicking effect or a follow-up action; distinct by scenario hash.",
    raw,
    build,
    check,
    budget: Budget { r_cases: (4000, 30000), s_cases: (2000, 8000), s_scheds: (16, 64) },
    liveness: true,
    enumerate: None,
    extra: None,
    borrow: &["C01", "C02", "C03", "C04", "C05", "C06", "C07", "C08", "C09", "C10", "C12", "C13", "C14", "C15", "C18", "C19"],
    assumptions: &[
        "Effect::Action follow-ups are required to be reduced only in the quiescent ending (the store provably still open when the worker dispatches them)",
        "driver S models the pool as one worker thread per task (no worker reuse); worker reuse is exercised by driver R with the real pool",
    ],
};
