//! Pieces shared by the per-property generators and oracles.
use crate::build::*;
use crate::digest::*;
use crate::log::*;
use crate::pipe::{self, Kind, PipeResult};
use crate::profile::*;
use crate::scenario::*;

pub const CAPS: [usize; 8] = [1, 1, 2, 2, 3, 4, 4, 16];
pub const POLS_MOSTLY_BLOCK: [Pol; 6] = [Pol::Block, Pol::Block, Pol::Block, Pol::Block, Pol::DropOldest, Pol::DropLatest];
pub const POLS: [Pol; 3] = [Pol::Block, Pol::DropOldest, Pol::DropLatest];
pub const CTORS: [Ctor; 3] = [Ctor::Builder, Ctor::BuilderWithReducer, Ctor::Simple];
pub const VIAS: [Via; 3] = [Via::Inherent, Via::StoreTrait, Via::Dispatcher];
pub const STALLS: [Stall; 8] = [Stall::None, Stall::None, Stall::None, Stall::Yield, Stall::Yield, Stall::Us50, Stall::Us500, Stall::Ms2];

pub fn knob(raw: &Raw, i: usize) -> u16 {
    raw.knobs.get(i).copied().unwrap_or(0)
}

pub struct ActOpts<'a> {
    pub reducers: &'a [CompId],
    pub middlewares: &'a [CompId],
    pub effects: bool,
    pub followups: bool,
    pub veto: bool,
    pub keeps: bool,
    pub panics: bool,
}

/// A fresh action for `store` whose script is derived from the raw op (construction, no rejection).
pub fn scripted_action(b: &mut ScnB, store: StoreIx, r: &RawOp, o: &ActOpts) -> ActId {
    let a = b.action(store, (r.a >> 12) as u8 % 4);
    if o.keeps && !o.reducers.is_empty() {
        match r.a & 0x7 {
            0 | 1 | 2 | 3 => {}
            4 | 5 => {
                // uniform Keep
                let all = o.reducers.to_vec();
                b.act_mut(a).keep = all;
            }
            _ => {
                // mixed chain
                let mut v = vec![];
                for (i, c) in o.reducers.iter().enumerate() {
                    if (r.a >> (3 + i)) & 1 == 1 {
                        v.push(*c);
                    }
                }
                b.act_mut(a).keep = v;
            }
        }
    }
    if o.effects && !o.reducers.is_empty() {
        let n = match r.b & 0xf {
            0..=7 => 0,
            8..=13 => 1,
            _ => 2,
        };
        for j in 0..n {
            let sel = (r.b >> (4 + 4 * j)) & 0xf;
            let kind = match sel % 6 {
                0 | 1 => EffKind::Task,
                2 => EffKind::Function,
                3 if o.followups => {
                    let f = b.action(store, 0);
                    EffKind::Thunk(vec![f])
                }
                4 if o.followups => {
                    let f = b.action(store, 1);
                    EffKind::Action(f)
                }
                5 if o.followups => {
                    let f1 = b.action(store, 2);
                    let f2 = b.action(store, 3);
                    EffKind::Thunk(vec![f1, f2])
                }
                _ => EffKind::Task,
            };
            let panics = o.panics && sel >= 12 && !matches!(kind, EffKind::Action(_));
            let stall = STALLS[(sel as usize * 5 + j) % STALLS.len()];
            let e = b.eff(kind, panics, stall);
            // distinct reducers for the two effects (one effect per reducer per action)
            let ri = (pick(r.c, o.reducers.len()) + j) % o.reducers.len();
            let comp = o.reducers[ri];
            if b.act_mut(a).effects.iter().all(|(c, _)| *c != comp) {
                b.act_mut(a).effects.push((comp, e));
            }
        }
    }
    if o.veto && !o.middlewares.is_empty() && (r.c >> 4) % 8 == 0 {
        let m = o.middlewares[pick(r.b, o.middlewares.len())];
        // a veto - or a fault in the same place: an Err is reported to on_error and otherwise means
        // Continue, so the action must still go through the whole chain
        let v = if (r.c >> 7) & 1 == 0 { Verdict::Done } else { Verdict::Err };
        b.act_mut(a).verdicts.push((m, Hook::BeforeReduce, v));
    }
    a
}

pub fn via_of(r: &RawOp) -> Via {
    VIAS[(r.c >> 8) as usize % 3]
}
pub fn stall_of(x: u16) -> Stall {
    STALLS[x as usize % STALLS.len()]
}

/// Common pre-processing of a history: end state handling shared by all checks.
/// Returns None when the oracle should not continue (outcome already final).
pub fn prepare<'a>(id: &str, liveness: bool, scn: &'a Scenario, h: &'a History, out: &mut Outcome) -> Option<(Digest<'a>, PipeResult)> {
    match &h.end {
        End::Completed => {}
        End::Deadlock(m) => {
            if liveness {
                out.viol(format!("deadlock: no thread can make progress ({}). {}", m.chars().take(200).collect::<String>(), blocked_summary(scn, h)));
            }
            return None;
        }
        _ => return None,
    }
    // real threads: a stop() that needed >= 2.5 s most likely ran into its 3 s timeout; time is
    // never a correctness signal here, the case is set aside
    if !h.slow.is_empty() && !scn.long_waits {
        out.inconclusive = Some("slow-op>=2.5s".into());
        return None;
    }
    // a store without a build-time reducer, middleware or permanent observer handles actions
    // without a single callback: nothing in the log says whether an action was taken (see
    // `Scenario::observable`); such a scenario is not judged
    if (0..scn.stores.len()).any(|s| !scn.observable(s)) {
        out.class("skipped-pipeline-not-observable");
        return None;
    }
    let d = Digest::new(scn, h);
    let p = pipe::check(&d);
    let _ = id;
    Some((d, p))
}

/// Which client ops were invoked but never returned (for deadlock messages / signatures).
pub fn pending_ops(scn: &Scenario, h: &History) -> Vec<(u32, u32, Op)> {
    let mut open: Vec<(u32, u32)> = vec![];
    for r in &h.recs {
        match &r.ev {
            Ev::Inv { th, ix } => open.push((*th, *ix)),
            Ev::Ret { th, ix, .. } => open.retain(|x| *x != (*th, *ix)),
            _ => {}
        }
    }
    open.into_iter().filter_map(|(th, ix)| op_of(scn, th, ix).map(|o| (th, ix, o.clone()))).collect()
}

pub fn blocked_summary(scn: &Scenario, h: &History) -> String {
    let p = pending_ops(scn, h);
    let cleanup = h.recs.iter().any(|r| matches!(r.ev, Ev::CleanupIn)) && !h.recs.iter().any(|r| matches!(r.ev, Ev::CleanupOut));
    format!("pending client calls: {:?}{}", p.iter().map(|(t, i, o)| format!("t{}#{}:{:?}", t, i, o)).collect::<Vec<_>>(), if cleanup { " + final stop()" } else { "" })
}

pub fn findings_of(p: &PipeResult, kinds: &[Kind]) -> Vec<String> {
    p.findings.iter().filter(|f| kinds.contains(&f.kind)).map(|f| format!("[{:?}] store {} @{}: {}", f.kind, f.store, f.pos, f.msg)).collect()
}

/// Notes for discrepancies that belong to other properties.
pub fn note_others(p: &PipeResult, mine: &[Kind], out: &mut Outcome) {
    for f in &p.findings {
        if !mine.contains(&f.kind) {
            out.notes.push(format!("{:?}", f.kind));
        }
    }
}

/// Ret position of a client op if it returned.
pub fn ret_of(d: &Digest, th: u32, ix: u32) -> Option<Pos> {
    d.ops.get(&(th, ix)).and_then(|o| o.ret)
}

// ------------------------------------------------------------------ prediction (generator side)

pub struct Predicted {
    pub vetoed: bool,
    pub surviving: Vec<EffSpec>,
    /// Some(true/false) when specified, None when the property leaves it open
    pub notifies: Option<bool>,
}

/// What the documented pipeline does with action `a` on a store whose components are all
/// build-time ones. Used by generators to know how many follow-ups / notifications to wait for.
pub fn predict(scn: &Scenario, store: StoreIx, a: ActId) -> Predicted {
    let sp = &scn.stores[store];
    let sc = &scn.actions[a as usize];
    let mut vetoed = false;
    for m in &sp.middlewares {
        match sc.verdict(*m, Hook::BeforeReduce) {
            Verdict::Done => vetoed = true,
            Verdict::Break => break,
            _ => {}
        }
    }
    let mut effs: Vec<EffSpec> = vec![];
    let mut keeps = vec![];
    if !vetoed {
        for r in &sp.reducers {
            keeps.push(sc.keeps(*r));
            if let Some(e) = sc.effect_of(*r) {
                effs.push(e.clone());
            }
        }
    }
    for m in &sp.middlewares {
        let rm = sc.removed_by(*m);
        effs.retain(|e| !rm.contains(&e.id));
        if sc.verdict(*m, Hook::BeforeEffect) == Verdict::Break {
            break;
        }
    }
    let mut notifies = if vetoed || keeps.is_empty() {
        None
    } else if keeps.iter().all(|k| !*k) {
        Some(true)
    } else if keeps.iter().all(|k| *k) {
        Some(false)
    } else {
        None
    };
    if notifies != Some(false) {
        for m in &sp.middlewares {
            match sc.verdict(*m, Hook::BeforeDispatch) {
                Verdict::Done => notifies = Some(false),
                Verdict::Break => break,
                _ => {}
            }
        }
    }
    Predicted { vetoed, surviving: effs, notifies }
}

// ------------------------------------------------------------------ effects (O-EFFECT)

pub struct EffObs {
    pub starts: std::collections::HashMap<EffId, Vec<(Pos, Tid)>>,
    pub ends: std::collections::HashMap<EffId, Vec<Pos>>,
}

pub fn effect_obs(d: &Digest) -> EffObs {
    let mut o = EffObs { starts: Default::default(), ends: Default::default() };
    for (p, r) in d.h.recs.iter().enumerate() {
        match &r.ev {
            Ev::Eff { eff } => o.starts.entry(*eff).or_default().push((p, r.tid)),
            Ev::EffEnd { eff } => o.ends.entry(*eff).or_default().push(p),
            _ => {}
        }
    }
    o
}

/// True if something ran at `pos` on thread `tid` *while that thread was the reducer context of
/// store `s`*. Pool workers are reused: once the reducer loop has ended its thread may pick up
/// queued effects, which is fine. The loop was still running at `pos` iff a later reducer-context
/// event of that store (pipeline callback, or on_unsubscribe from the shutdown sweep) is logged on
/// the same thread.
pub fn in_reducer_context(d: &Digest, s: StoreIx, pos: Pos, tid: Tid) -> bool {
    if d.stores[s].red_tid != Some(tid) {
        return false;
    }
    for r in d.h.recs[pos + 1..].iter() {
        if r.tid != tid {
            continue;
        }
        let mine = match &r.ev {
            Ev::MwIn { act, .. } | Ev::MwOut { act, .. } | Ev::RedIn { act, .. } | Ev::RedOut { act, .. } => d.store_of_act(*act) == s,
            Ev::NotIn { sub, act, .. } | Ev::NotOut { sub, act, .. } => d.store_of_act(*act) == s && matches!(d.sub_kind(*sub), SubKind::Direct),
            Ev::Unsub { sub } => d.stores[s].subs.iter().any(|(x, _)| x == sub),
            _ => false,
        };
        if mine {
            return true;
        }
    }
    false
}

pub fn eff_spec(scn: &Scenario, id: EffId) -> Option<&EffSpec> {
    for a in &scn.actions {
        for (_, e) in &a.effects {
            if e.id == id {
                return Some(e);
            }
        }
    }
    None
}

/// O-EFFECT over the effects returned by reducers. `expect_all`: every surviving effect must have
/// run by the end of the log (sound when the scenario made sure they were awaited or when stop()
/// joins the workers); follow-up presence for Effect::Action is required only when
/// `followups_awaited`.
pub fn check_effects(d: &Digest, p: &PipeResult, followups_awaited: bool, viol: &mut Vec<String>, lost_after_stop: &mut Vec<(EffId, ActId)>) {
    let obs = effect_obs(d);
    for (s, runs) in p.runs.iter().enumerate() {
        for (ri, r) in runs.iter().enumerate() {
            for e in &r.effects_returned {
                let Some(spec) = eff_spec(d.scn, *e) else { continue };
                let survived = r.effects_surviving.contains(e);
                let starts = obs.starts.get(e).cloned().unwrap_or_default();
                match &spec.kind {
                    EffKind::Action(f) => {
                        let fruns: Vec<usize> = runs.iter().enumerate().filter(|(_, x)| x.act == *f).map(|(i, _)| i).collect();
                        if !survived {
                            if !fruns.is_empty() {
                                viol.push(format!("Effect::Action {} of action {} was removed in before_effect but its action {} was reduced", e, r.act, f));
                            }
                            continue;
                        }
                        if fruns.len() > 1 {
                            viol.push(format!("follow-up action {} of Effect::Action {} was reduced {} times", f, e, fruns.len()));
                        }
                        if let Some(fi) = fruns.first() {
                            if *fi <= ri {
                                viol.push(format!("follow-up action {} was reduced before the action {} that produced it", f, r.act));
                            }
                        } else if followups_awaited {
                            viol.push(format!("Effect::Action {} of action {}: follow-up action {} was never reduced although the store was still open", e, r.act, f));
                        }
                    }
                    _ => {
                        if !survived {
                            if !starts.is_empty() {
                                viol.push(format!("effect {} of action {} was removed by a middleware in before_effect but was executed", e, r.act));
                            }
                            continue;
                        }
                        if starts.len() > 1 {
                            viol.push(format!("effect {} of action {} was executed {} times", e, r.act, starts.len()));
                        }
                        if starts.is_empty() {
                            lost_after_stop.push((*e, r.act));
                        }
                        for (pos, tid) in &starts {
                            if in_reducer_context(d, s, *pos, *tid) {
                                viol.push(format!("effect {} of action {} ran in the reducer context (thread {})", e, r.act, tid));
                            }
                            if *pos < r.first {
                                viol.push(format!("effect {} ran before the action {} that produced it was reduced", e, r.act));
                            }
                        }
                        if let EffKind::Thunk(list) = &spec.kind {
                            // a thunk's dispatcher belongs to the store that produced it: its
                            // follow-ups (scripted for store s) must show up in store s's pipeline
                            for f in list {
                                let accepted = d.disps.iter().any(|x| x.act == *f && x.ok == Some(true));
                                let n = runs.iter().filter(|x| x.act == *f).count();
                                if n > 1 {
                                    viol.push(format!("follow-up {} of thunk {} reduced {} times", f, e, n));
                                }
                                if accepted && n == 0 && d.scn.stores[s].policy == Pol::Block {
                                    viol.push(format!("follow-up {} dispatched by thunk {} was accepted (Ok) but never reduced by the store that produced the thunk", f, e));
                                }
                                for (os, oruns) in p.runs.iter().enumerate() {
                                    if os != s && oruns.iter().any(|x| x.act == *f) {
                                        viol.push(format!("thunk {} produced by store {} dispatched into store {}", e, s, os));
                                    }
                                }
                            }
                        }
                    }
                }
            }
        }
    }
    // nothing runs after stop() returned
    for (s, sd) in d.stores.iter().enumerate() {
        if let Some(sr) = sd.first_stop_ret {
            for (e, v) in obs.starts.iter() {
                let Some(spec) = eff_spec(d.scn, *e) else { continue };
                let _ = spec;
                let store_of = d.scn.actions.iter().find(|a| a.effects.iter().any(|(_, x)| x.id == *e)).map(|a| a.store);
                if store_of != Some(s) {
                    continue;
                }
                for (pos, _) in v {
                    if *pos > sr {
                        viol.push(format!("effect {} started after stop() of store {} had returned", e, s));
                    }
                }
                for pos in obs.ends.get(e).cloned().unwrap_or_default() {
                    if pos > sr {
                        viol.push(format!("effect {} was still running when stop() of store {} returned", e, s));
                    }
                }
            }
        }
    }
}


/// Notifications of direct/selector subscribers after their unsubscribe() had returned (typed Late
/// findings of the pipeline model), classified against the known-finding signature
/// `notify-after-unsubscribe-inflight`: exactly one late action per subscriber, reduced before the
/// unsubscribe returned (the single notification snapshot in flight). Anything else is a violation.
pub fn classify_late(d: &Digest, p: &PipeResult, s: StoreIx, report_known: bool, out: &mut Outcome) {
    let sd = &d.stores[s];
    let runs = &p.runs[s];
    let mut late_by_sub: std::collections::BTreeMap<SubId, Vec<&pipe::Finding>> = Default::default();
    for f in p.findings.iter().filter(|f| f.kind == Kind::Late && f.store == s) {
        late_by_sub.entry(f.sub.unwrap()).or_default().push(f);
    }
    for (sub, fs) in late_by_sub {
        let iv = &sd.subs.iter().find(|(x, _)| *x == sub).unwrap().1;
        let ur = iv.unsub_ret.unwrap();
        let acts: std::collections::BTreeSet<ActId> = fs.iter().filter_map(|f| f.act).collect();
        let single_inflight = acts.len() == 1 && {
            let a = *acts.iter().next().unwrap();
            // the notification snapshot is taken after the action's last pre-notification callback
            // returned. An action that had no such callback (a store without reducers and
            // middlewares) shows nothing between the end of the previous action and its first
            // notification: its snapshot may have been taken any time after the previous action's
            // last callback (and after it was dispatched)
            runs.iter().position(|r| r.act == a).map(|i| {
                let r = &runs[i];
                let lb = if r.reducers.is_empty() && r.hooks == 0 {
                    let prev_end = if i > 0 { runs[i - 1].last } else { 0 };
                    prev_end.max(d.disp_of(a).map(|x| x.inv).unwrap_or(0))
                } else {
                    r.reduced_at
                };
                lb < ur
            }).unwrap_or(false)
        };
        let msg = format!("store {}: subscriber {} was notified of action(s) {:?} after its unsubscribe() had returned at @{}", s, sub, acts, ur);
        if single_inflight {
            if report_known {
                out.known("notify-after-unsubscribe-inflight", msg);
            } else {
                // the in-flight notification is C09's (known) finding, not this property's business
                out.notes.push("Late(in-flight)".into());
            }
        } else {
            out.viol(msg);
        }
    }
}


/// One `SelectorSubscriber` object registered on several stores: its notifications arrive on
/// several reducer threads and are serialised by the object's own lock. Exact oracle without
/// knowing that order: the callback log (written under the lock, so in lock order) must be
/// explainable by *some* serialisation that respects each store's own notification order -
///  * every delivery carries the value selected from the state of the action it names, and no
///    notification is delivered twice;
///  * deliveries never repeat the value delivered last;
///  * a notification that was *not* delivered must have met its own value as the value delivered
///    last: between the deliveries of its store's neighbouring notifications there is a delivery
///    of exactly that value (and a notification before the very first delivery is never silent).
/// A dropped, duplicated or invented notification breaks one of the three.
pub fn shared_selector_check(d: &Digest, sub: SubId) -> Vec<String> {
    let (scn, h) = (d.scn, d.h);
    let mut viol = vec![];
    // notifications per store in that store's own order: (action, value). The action is the one
    // whose pipeline run (on that store's reducer thread) contains the selector call.
    let mut per_store: std::collections::BTreeMap<StoreIx, Vec<(ActId, u64)>> = Default::default();
    let fresh = matches!(scn.sub(sub).kind, SubKind::SelectorObj { fresh: true } | SubKind::Selector { fresh: true });
    for (pos, r) in h.recs.iter().enumerate() {
        if let Ev::SelIn { sub: x, st } = &r.ev {
            if *x == sub {
                let found = d.stores.iter().enumerate().find_map(|(s, sd)| {
                    if sd.red_tid != Some(r.tid) {
                        return None;
                    }
                    sd.runs.iter().find(|run| run.first <= pos && pos <= run.last).map(|run| (s, run.act))
                });
                let Some((s, a)) = found else {
                    viol.push(format!("selector object {} was called at @{} outside any action's pipeline run", sub, pos));
                    continue;
                };
                per_store.entry(s).or_default().push((a, if fresh { st.h } else { st.sel as u64 }));
            }
        }
    }
    let delivered: Vec<(u64, ActId)> = h.recs.iter().filter_map(|r| match &r.ev {
        Ev::SelCb { sub: x, val, act } if *x == sub => Some((*val, *act)),
        _ => None,
    }).collect();
    let total: usize = per_store.values().map(|v| v.len()).sum();
    if total > 0 && delivered.is_empty() {
        viol.push(format!("selector object {} was notified {} times but never called its callback (the first notification must be delivered)", sub, total));
        return viol;
    }
    let mut seen = std::collections::HashSet::new();
    for (v, a) in &delivered {
        let store = scn.actions[*a as usize].store;
        match per_store.get(&store).and_then(|n| n.iter().find(|(x, _)| x == a)) {
            None => viol.push(format!("selector object {} delivered value {} for action {}, of which it was never notified", sub, v, a)),
            Some((_, nv)) if nv != v => viol.push(format!("selector object {} delivered value {} with action {}, whose state selects {}", sub, v, a, nv)),
            _ => {}
        }
        if !seen.insert(*a) {
            viol.push(format!("selector object {} delivered action {} twice", sub, a));
        }
    }
    for w in delivered.windows(2) {
        if w[0].0 == w[1].0 {
            viol.push(format!("selector object {} delivered value {} for action {} and then the same value again for action {}", sub, w[0].0, w[0].1, w[1].1));
            break;
        }
    }
    let pos_of = |a: ActId| delivered.iter().position(|(_, x)| *x == a);
    for (store, notes) in &per_store {
        for (i, (a, v)) in notes.iter().enumerate() {
            if pos_of(*a).is_some() {
                continue;
            }
            // silent notification: bracket it by its store's delivered neighbours
            let lo = notes[..i].iter().rev().find_map(|(x, _)| pos_of(*x));
            let hi = notes[i + 1..].iter().find_map(|(x, _)| pos_of(*x)).unwrap_or(delivered.len());
            let from = lo.unwrap_or(0);
            let ok = (from..hi).any(|j| delivered[j].0 == *v);
            if !ok {
                viol.push(format!(
                    "selector object {} stayed silent for action {} of store {} (selected value {}), but between the deliveries of that store's neighbouring notifications (callback log positions {}..{}) the value delivered last was never {}: a notification was lost",
                    sub, a, store, v, from, hi, v
                ));
            }
        }
    }
    viol
}
