//! Pieces shared by the per-property generators and oracles.
use crate::build::*;
use crate::digest::*;
use crate::log::*;
use crate::pipe::{self, Kind, PipeResult};
use crate::profile::*;
use crate::scenario::*;

pub const CAPS: [usize; 8] = [1, 1, 2, 2, 3, 4, 4, 16];
pub const POLS_MOSTLY_BLOCK: [Pol; 6] = [Pol::Block, Pol::Block, Pol::Block, Pol::Block, Pol::DropOldest, Pol::DropLatest];
pub const POLS: [Pol; 3] = [Pol::Block, Pol::DropOldest, Pol::DropLatest];
pub const CTORS: [Ctor; 3] = [Ctor::Builder, Ctor::BuilderWithReducer, Ctor::NewWith];
pub const VIAS: [Via; 3] = [Via::Inherent, Via::StoreTrait, Via::Dispatcher];
pub const STALLS: [Stall; 8] = [Stall::None, Stall::None, Stall::None, Stall::Yield, Stall::Yield, Stall::Us50, Stall::Us500, Stall::Ms2];

pub fn knob(raw: &Raw, i: usize) -> u16 {
    raw.knobs.get(i).copied().unwrap_or(0)
}

pub struct ActOpts<'a> {
    pub reducers: &'a [CompId],
    pub middlewares: &'a [CompId],
    pub effects: bool,
    pub followups: bool,
    pub veto: bool,
    pub keeps: bool,
    pub panics: bool,
}

/// A fresh action for `store` whose script is derived from the raw op (construction, no rejection).
pub fn scripted_action(b: &mut ScnB, store: StoreIx, r: &RawOp, o: &ActOpts) -> ActId {
    let a = b.action(store, (r.a >> 12) as u8 % 4);
    if o.keeps && !o.reducers.is_empty() {
        match r.a & 0x7 {
            0 | 1 | 2 | 3 => {}
            4 | 5 => {
                // uniform Keep
                let all = o.reducers.to_vec();
                b.act_mut(a).keep = all;
            }
            _ => {
                // mixed chain
                let mut v = vec![];
                for (i, c) in o.reducers.iter().enumerate() {
                    if (r.a >> (3 + i)) & 1 == 1 {
                        v.push(*c);
                    }
                }
                b.act_mut(a).keep = v;
            }
        }
    }
    if o.effects && !o.reducers.is_empty() {
        let n = match r.b & 0xf {
            0..=7 => 0,
            8..=13 => 1,
            _ => 2,
        };
        for j in 0..n {
            let sel = (r.b >> (4 + 4 * j)) & 0xf;
            let kind = match sel % 6 {
                0 | 1 => EffKind::Task,
                2 => EffKind::Function,
                3 if o.followups => {
                    let f = b.action(store, 0);
                    EffKind::Thunk(vec![f])
                }
                4 if o.followups => {
                    let f = b.action(store, 1);
                    EffKind::Action(f)
                }
                5 if o.followups => {
                    let f1 = b.action(store, 2);
                    let f2 = b.action(store, 3);
                    EffKind::Thunk(vec![f1, f2])
                }
                _ => EffKind::Task,
            };
            let panics = o.panics && sel >= 12 && !matches!(kind, EffKind::Action(_));
            let stall = STALLS[(sel as usize * 5 + j) % STALLS.len()];
            let e = b.eff(kind, panics, stall);
            // distinct reducers for the two effects (one effect per reducer per action)
            let ri = (pick(r.c, o.reducers.len()) + j) % o.reducers.len();
            let comp = o.reducers[ri];
            if b.act_mut(a).effects.iter().all(|(c, _)| *c != comp) {
                b.act_mut(a).effects.push((comp, e));
            }
        }
    }
    if o.veto && !o.middlewares.is_empty() && (r.c >> 4) % 8 == 0 {
        let m = o.middlewares[pick(r.b, o.middlewares.len())];
        b.act_mut(a).verdicts.push((m, Hook::BeforeReduce, Verdict::Done));
    }
    a
}

pub fn via_of(r: &RawOp) -> Via {
    VIAS[(r.c >> 8) as usize % 3]
}
pub fn stall_of(x: u16) -> Stall {
    STALLS[x as usize % STALLS.len()]
}

/// Common pre-processing of a history: end state handling shared by all checks.
/// Returns None when the oracle should not continue (outcome already final).
pub fn prepare<'a>(id: &str, liveness: bool, scn: &'a Scenario, h: &'a History, out: &mut Outcome) -> Option<(Digest<'a>, PipeResult)> {
    match &h.end {
        End::Completed => {}
        End::Deadlock(m) => {
            if liveness {
                out.viol(format!("deadlock: no thread can make progress ({}). {}", m.chars().take(200).collect::<String>(), blocked_summary(scn, h)));
            }
            return None;
        }
        _ => return None,
    }
    // real threads: a stop() that needed >= 2.5 s most likely ran into its 3 s timeout; time is
    // never a correctness signal here, the case is set aside
    if !h.slow.is_empty() {
        out.inconclusive = Some("slow-op>=2.5s".into());
        return None;
    }
    let d = Digest::new(scn, h);
    let p = pipe::check(&d);
    let _ = id;
    Some((d, p))
}

/// Which client ops were invoked but never returned (for deadlock messages / signatures).
pub fn pending_ops(scn: &Scenario, h: &History) -> Vec<(u32, u32, Op)> {
    let mut open: Vec<(u32, u32)> = vec![];
    for r in &h.recs {
        match &r.ev {
            Ev::Inv { th, ix } => open.push((*th, *ix)),
            Ev::Ret { th, ix, .. } => open.retain(|x| *x != (*th, *ix)),
            _ => {}
        }
    }
    open.into_iter().filter_map(|(th, ix)| op_of(scn, th, ix).map(|o| (th, ix, o.clone()))).collect()
}

pub fn blocked_summary(scn: &Scenario, h: &History) -> String {
    let p = pending_ops(scn, h);
    let cleanup = h.recs.iter().any(|r| matches!(r.ev, Ev::CleanupIn)) && !h.recs.iter().any(|r| matches!(r.ev, Ev::CleanupOut));
    format!("pending client calls: {:?}{}", p.iter().map(|(t, i, o)| format!("t{}#{}:{:?}", t, i, o)).collect::<Vec<_>>(), if cleanup { " + final stop()" } else { "" })
}

pub fn findings_of(p: &PipeResult, kinds: &[Kind]) -> Vec<String> {
    p.findings.iter().filter(|f| kinds.contains(&f.kind)).map(|f| format!("[{:?}] store {} @{}: {}", f.kind, f.store, f.pos, f.msg)).collect()
}

/// Notes for discrepancies that belong to other properties.
pub fn note_others(p: &PipeResult, mine: &[Kind], out: &mut Outcome) {
    for f in &p.findings {
        if !mine.contains(&f.kind) {
            out.notes.push(format!("{:?}", f.kind));
        }
    }
}

/// Ret position of a client op if it returned.
pub fn ret_of(d: &Digest, th: u32, ix: u32) -> Option<Pos> {
    d.ops.get(&(th, ix)).and_then(|o| o.ret)
}
