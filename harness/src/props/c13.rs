//! C13 — the public API never deadlocks under concurrent use.
use super::common::*;
use crate::build::*;
use crate::log::*;
use crate::profile::*;
use crate::scenario::*;
use std::collections::HashSet;

fn raw(tier: Tier) -> proptest::strategy::BoxedStrategy<Raw> {
    match tier {
        Tier::Quick => raw_strategy(4, 8),
        Tier::Thorough => raw_strategy(4, 14),
    }
}

pub fn build(raw: &Raw, _tier: Tier, sched: bool) -> Scenario {
    let mut b = ScnB::new();
    let cap = CAPS[pick(knob(raw, 0), CAPS.len())];
    let policy = POLS_MOSTLY_BLOCK[pick(knob(raw, 1), POLS_MOSTLY_BLOCK.len())];
    let s = b.store("c13", cap, policy, CTORS[pick(knob(raw, 2), 3)].clone());
    b.s.stores[s].droppable = knob(raw, 3) % 3 == 0;
    let nred = 1 + pick(knob(raw, 4), 2);
    let mut reds: Vec<CompId> = (0..nred).map(|_| b.reducer(s)).collect();
    let mut mws: Vec<CompId> = (0..pick(knob(raw, 5), 2)).map(|_| b.middleware(s)).collect();
    for m in mws.clone() {
        b.comp_mut(m).reads_state = true;
    }
    // a pool of subscribers of every kind; callbacks return and at most read the state
    let mut subs = vec![];
    for i in 0..5 {
        let k = (knob(raw, 6) >> (3 * i)) % 8;
        let kind = match k {
            0 | 1 => SubKind::Direct,
            2 => SubKind::Selector { fresh: k % 2 == 0 },
            3 | 4 => SubKind::Channeled { cap: 1 + (knob(raw, 7) % 3) as usize, pol: Pol::Block, default_ctor: k == 4 },
            5 => SubKind::Channeled { cap: 1, pol: Pol::DropOldest, default_ctor: false },
            6 => SubKind::Channeled { cap: 1, pol: Pol::DropLatest, default_ctor: false },
            _ => SubKind::Direct,
        };
        let id = b.sub(kind);
        b.sub_mut(id).reads_state = (knob(raw, 8) >> i) & 1 == 1;
        b.sub_mut(id).stall = stall_of(knob(raw, 9).wrapping_add(i as u16 * 3));
        subs.push(id);
    }
    let mut registered: HashSet<SubId> = HashSet::new();
    let pre = pick(knob(raw, 10), 3);
    for sub in subs.iter().take(pre) {
        b.s.prelude.push(Op::Subscribe { store: s, sub: *sub });
        registered.insert(*sub);
    }
    let mut threads: Vec<&Vec<RawOp>> = raw.threads.iter().collect();
    let empty = vec![];
    while threads.len() < 2 {
        threads.push(&empty);
    }
    let nthreads = threads.len();
    let mut added = 0;
    for (t, ops) in threads.iter().enumerate() {
        let th = b.thread();
        let last = t + 1 == nthreads;
        // iterator currently open on this thread (split API). While a thread owns an unread
        // iterator the reducer may be waiting for it (the iterator channel is documented to be a
        // capacity-1 blocking hand-over), so until it reads/closes the iterator the thread only
        // makes calls that do not depend on the reducer's progress - a program that does
        // otherwise blocks itself and is outside the property.
        let mut open: Option<u32> = None;
        for r in ops.iter() {
            if let Some(it) = open {
                let op = match r.k % 32 {
                    0..=5 => Op::IterTake { it, k: 1 + (r.a % 3) as u32 },
                    6..=8 => {
                        open = None;
                        Op::IterDrain { it }
                    }
                    9..=11 => {
                        open = None;
                        Op::IterClose { it }
                    }
                    // (real threads: finding `shutdown-sweep-blocked-on-unread-iterator` would hang an
                    // OS thread, so calls that need the subscriber list are left to driver S)
                    12..=16 if !sched => Op::GetState { store: s },
                    12 | 13 => {
                        let cand: Vec<SubId> = subs.iter().copied().filter(|x| !registered.contains(x)).collect();
                        if cand.is_empty() {
                            Op::GetState { store: s }
                        } else {
                            let sub = cand[pick(r.a, cand.len())];
                            registered.insert(sub);
                            Op::Subscribe { store: s, sub }
                        }
                    }
                    14..=16 => Op::Unsubscribe { store: s, sub: subs[pick(r.a, subs.len())] },
                    17 | 18 => Op::GetState { store: s },
                    19 => Op::GetMetrics { store: s },
                    20 | 21 if policy != Pol::Block => {
                        let a = b.action(s, 0);
                        Op::Dispatch { act: a, via: via_of(r) }
                    }
                    _ => Op::Stall(stall_of(r.a)),
                };
                b.s.threads[th].push(op);
                continue;
            }
            let op = match r.k % 32 {
                29 | 30 if !last => {
                    let it = b.iter_id();
                    open = Some(it);
                    Op::IterOpen { store: s, it, ready: None }
                }
                0..=9 => {
                    let o = ActOpts { reducers: &reds, middlewares: &mws, effects: true, followups: true, veto: true, keeps: true, panics: false };
                    let a = scripted_action(&mut b, s, r, &o);
                    Op::Dispatch { act: a, via: via_of(r) }
                }
                10 => {
                    let f = b.action(s, 0);
                    let e = b.eff(EffKind::Thunk(vec![f]), false, stall_of(r.a));
                    Op::DispatchThunk { store: s, eff: e }
                }
                11 => {
                    let e = b.eff(EffKind::Task, false, stall_of(r.a));
                    Op::DispatchTask { store: s, eff: e }
                }
                12 | 13 => {
                    let cand: Vec<SubId> = subs.iter().copied().filter(|x| !registered.contains(x)).collect();
                    if cand.is_empty() {
                        Op::GetState { store: s }
                    } else {
                        let sub = cand[pick(r.a, cand.len())];
                        registered.insert(sub);
                        Op::Subscribe { store: s, sub }
                    }
                }
                14..=16 => Op::Unsubscribe { store: s, sub: subs[pick(r.a, subs.len())] },
                17 | 18 => Op::GetState { store: s },
                19 => Op::GetMetrics { store: s },
                // iterators are consumed on every thread but the last one (which always stops the
                // store, so that a consumer running to None is eventually released)
                20 | 21 if !last => {
                    let it = b.iter_id();
                    let consume = if r.a % 2 == 0 { Consume::UntilNone } else { Consume::TakeThenDrop((r.b % 4) as u32) };
                    Op::Iter { store: s, it, consume, ready: None }
                }
                22 if added < 2 => {
                    added += 1;
                    let c = b.comp();
                    reds.push(c);
                    Op::AddReducer { store: s, comp: c }
                }
                23 if added < 2 => {
                    added += 1;
                    let c = b.comp();
                    b.comp_mut(c).reads_state = true;
                    mws.push(c);
                    Op::AddMiddleware { store: s, comp: c }
                }
                24 => Op::Close { store: s },
                25 => Op::Stop { store: s, via_trait: r.a % 2 == 0 },
                26 if b.s.stores[s].droppable => Op::DropDroppable { store: s },
                27 | 28 => Op::Stall(stall_of(r.a)),
                _ => Op::GetState { store: s },
            };
            b.s.threads[th].push(op);
        }
        if let Some(it) = open {
            b.s.threads[th].push(if knob(raw, 11) % 2 == 0 { Op::IterClose { it } } else { Op::IterDrain { it } });
        }
        if last {
            b.s.threads[th].push(Op::Stop { store: s, via_trait: false });
        }
    }
    b.finish()
}

/// Signature of the repaired defect F6 (kept so that its return is recognised and reported): a
/// consumer is blocked in `next()` of an iterator that was created after a shutdown of the store
/// had been invoked. It is no longer listed in known-findings.txt, so it counts as a violation.
fn iterator_created_after_shutdown(scn: &Scenario, h: &History) -> bool {
    let pend = pending_ops(scn, h);
    let shutdown = h.recs.iter().position(|r| match &r.ev {
        Ev::Inv { th, ix } => matches!(crate::digest::op_of(scn, *th, *ix), Some(Op::Close { .. }) | Some(Op::Stop { .. }) | Some(Op::DropDroppable { .. })),
        _ => false,
    });
    let Some(sd) = shutdown else { return false };
    // every pending call must be either such an iterator or the clean-up's final stop / a thread join
    let mut any = false;
    for (_, _, op) in &pend {
        match op {
            Op::Iter { it, .. } | Op::IterTake { it, .. } | Op::IterDrain { it } => {
                let new = h.recs.iter().position(|r| matches!(&r.ev, Ev::ItNew { it: i } if i == it));
                let none = h.recs.iter().any(|r| matches!(&r.ev, Ev::ItNone { it: i, .. } if i == it));
                let dropping = h.recs.iter().any(|r| matches!(&r.ev, Ev::ItDropIn { it: i } if i == it));
                match new {
                    Some(np) if np > sd && !none && !dropping => any = true,
                    _ => return false,
                }
            }
            _ => return false,
        }
    }
    any
}

/// Finding signature: the shutdown sweep (which runs under the subscriber-list lock) is blocked
/// handing the end marker to an iterator that still has an unread item, while the thread that owns
/// that iterator is itself waiting for the subscriber-list lock.
fn sweep_blocked_on_unread_iterator(scn: &Scenario, h: &History) -> bool {
    use crate::digest::op_of;
    let shutdown = h.recs.iter().position(|r| match &r.ev {
        Ev::Inv { th, ix } => matches!(op_of(scn, *th, *ix), Some(Op::Close { .. }) | Some(Op::Stop { .. }) | Some(Op::DropDroppable { .. })),
        Ev::CleanupIn => true,
        _ => false,
    });
    if shutdown.is_none() {
        return false;
    }
    let pend = pending_ops(scn, h);
    // iterators that are open (created, not ended, not dropped) and the thread that owns them
    let mut owner_blocked_on_list = false;
    for (th, _, op) in &pend {
        let needs_list = matches!(op, Op::Subscribe { .. } | Op::Unsubscribe { .. } | Op::IterOpen { .. } | Op::Iter { .. });
        if !needs_list {
            continue;
        }
        // does this thread own an open iterator?
        let mut open: std::collections::HashSet<u32> = Default::default();
        for r in &h.recs {
            match &r.ev {
                Ev::Inv { th: t, ix } if t == th => {
                    if let Some(Op::IterOpen { it, .. }) = op_of(scn, *t, *ix) {
                        open.insert(*it);
                    }
                }
                Ev::ItDropIn { it } | Ev::ItNone { it, .. } => {
                    open.remove(it);
                }
                _ => {}
            }
        }
        if !open.is_empty() {
            owner_blocked_on_list = true;
        }
    }
    if !owner_blocked_on_list {
        return false;
    }
    // everything else that is stuck must be explained by the same cycle
    pend.iter().all(|(_, _, op)| {
        matches!(
            op,
            Op::Stop { .. } | Op::DropDroppable { .. } | Op::Close { .. } | Op::Dispatch { .. } | Op::Subscribe { .. } | Op::Unsubscribe { .. } | Op::IterOpen { .. } | Op::Iter { .. } | Op::IterTake { .. } | Op::IterDrain { .. } | Op::IterClose { .. }
        )
    })
}

pub fn check(scn: &Scenario, h: &History) -> Outcome {
    let mut out = Outcome::default();
    match &h.end {
        End::Deadlock(m) => {
            let msg = format!("deadlock: no thread can make progress ({}). {}", m.chars().take(160).collect::<String>(), blocked_summary(scn, h));
            if iterator_created_after_shutdown(scn, h) {
                out.known("iterator-created-after-shutdown", msg);
            } else if sweep_blocked_on_unread_iterator(scn, h) {
                out.known("shutdown-sweep-blocked-on-unread-iterator", msg);
            } else {
                out.viol(msg);
            }
            return out;
        }
        End::Completed => {}
        _ => return out,
    }
    // real threads: a stop() that needed its timeout is re-run by the driver (see DESIGN C13);
    // here it only marks the case
    if h.slow.iter().any(|(_, _, ms)| *ms >= 2900) {
        out.inconclusive = Some("stop>=2.9s".into());
        return out;
    }
    // classes
    let mut kinds: HashSet<&'static str> = HashSet::new();
    let mut client_threads = 0;
    for t in &scn.threads {
        if !t.is_empty() {
            client_threads += 1;
        }
        for o in t {
            match o {
                Op::Stop { .. } | Op::DropDroppable { .. } => {
                    kinds.insert("stop");
                }
                Op::Unsubscribe { sub, .. } if matches!(scn.sub(*sub).kind, SubKind::Channeled { .. }) => {
                    kinds.insert("unsubscribe-channeled");
                }
                Op::Iter { .. } | Op::IterOpen { .. } => {
                    kinds.insert("iterator");
                }
                Op::IterTake { .. } => {
                    kinds.insert("iterator-held-across-calls");
                }
                Op::Dispatch { .. } if scn.stores[0].policy == Pol::Block && scn.stores[0].capacity <= 2 => {
                    kinds.insert("blocking-dispatch-small-queue");
                }
                _ => {}
            }
        }
    }
    for k in &kinds {
        out.class(k);
    }

    if client_threads >= 3 && kinds.len() >= 3 {
        out.nontrivial = true;
    }
    out
}

pub static PROFILE: Profile = Profile {
    id: "C13",
    rule: "proptest programs of 2-4 client threads over the whole public API: dispatch through the three entry points, dispatch_thunk / dispatch_task, add_subscriber / subscribe_with_selector / subscribed / subscribed_with (every policy), unsubscribe (any thread, repeated), get_state, get_metrics, iter() consumed to None or dropped after k items (in one go, or held open across other calls of the owning thread that do not depend on the reducer's progress), add_reducer, add_middleware, close, stop (any thread, racing), drop of a DroppableStore; callbacks return and at most read the state. Oracle O-LIVE: under the schedule-controlled driver a state with no runnable thread (incl. stop() needing its timeout, since timed waits never expire there) is a violation; on real threads every case must finish (watchdog). Non-trivial = >= 3 non-empty client threads and >= 3 kinds of blocking-capable operations (stop, unsubscribe of a channeled subscriber, iterator consumption, blocking dispatch on a queue of capacity <= 2) in the program; distinct by scenario hash.",
    raw,
    build,
    check,
    budget: Budget { r_cases: (3000, 20000), s_cases: (8000, 40000), s_scheds: (16, 64) },
    liveness: true,
    enumerate: None,
    extra: None,
    borrow: &[],
    assumptions: &[
        "callbacks never call back into the store except get_state (the property excludes it)",
        "the last client thread always ends with stop() and consumes no iterator, so a consumer running to None is released by a stop that does not depend on it",
        "real threads: while a thread holds an open iterator it makes no subscriber-list call (known finding shutdown-sweep-blocked-on-unread-iterator would hang an OS thread); the schedule-controlled drivers do generate that shape",
        "step bound 200000 per execution: reaching it is inconclusive, never a violation (the code has no spin loops)",
    ],
};
