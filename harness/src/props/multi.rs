//! C18 — metrics counters add up; C19 — store instances are independent.
use super::common::*;
use super::pipegen::*;
use crate::build::*;
use crate::digest::*;
use crate::log::*;
use crate::pipe::{Kind, PipeResult};
use crate::profile::*;
use crate::scenario::*;

fn raw(tier: Tier) -> proptest::strategy::BoxedStrategy<Raw> {
    match tier {
        Tier::Quick => raw_strategy(4, 10),
        Tier::Thorough => raw_strategy(4, 20),
    }
}

// =============================================================================== C18

const ONLY_BLOCK: [Pol; 1] = [Pol::Block];
const CAPS_SMALL: [usize; 6] = [1, 1, 2, 2, 3, 4];

pub fn c18_build(raw: &Raw, _tier: Tier, _sched: bool) -> Scenario {
    let mut o = PipeOpts::base("c18");
    o.mws = (0, 3);
    o.reducers = (0, 3);
    o.runtime_add = true;
    o.verdicts = true;
    o.effects = true;
    o.panics = true;
    o.caps = &CAPS_SMALL;
    o.metrics_reads = true;
    o.racing_stop = true;
    o.thunk_ops = true;
    if knob(raw, 15) % 2 == 0 {
        o.pols = &ONLY_BLOCK;
        o.followups = true;
    } else {
        o.pols = &POLS;
        o.followups = false;
        o.thunk_ops = false;
    }
    let mut s = gen_pipeline(raw, &o);
    // before_effect removal masks: effects issued counts what the reducers returned, not what is left
    let mws: Vec<CompId> = s.stores[0].middlewares.clone();
    if !mws.is_empty() {
        for (i, a) in s.actions.iter_mut().enumerate() {
            if !a.effects.is_empty() && (knob(raw, 12) as usize + i) % 3 == 0 {
                let e = a.effects[i % a.effects.len()].1.id;
                a.removes.push((mws[i % mws.len()], vec![e]));
            }
        }
    }
    // one sampler thread reading the metrics in a loop
    let n = 4 + (knob(raw, 14) % 8) as usize;
    let mut sampler = vec![];
    for i in 0..n {
        sampler.push(Op::GetMetrics { store: 0 });
        if i % 3 == 2 {
            sampler.push(Op::Stall(stall_of(knob(raw, 13).wrapping_add(i as u16))));
        }
    }
    s.threads.push(sampler);
    s
}

/// The balance equations for one store, evaluated on a metrics snapshot taken after its stop.
pub fn metric_equations(d: &Digest, p: &PipeResult, s: StoreIx, m: &[usize; 8], viol: &mut Vec<String>) -> (usize, usize) {
    let scn = d.scn;
    let runs = &p.runs[s];
    let policy = scn.stores[s].policy;
    let [received, dropped, reduced, effect_issued, mw_executed, _state_notified, _sub_notified, errors] = *m;
    let nruns = runs.len();
    // received (not counting the shutdown marker)
    // whether the raw counter includes the shutdown marker is not part of the property ("not
    // counting the shutdown marker"): both conventions are accepted
    if !(received == nruns || received == nruns + 1) {
        viol.push(format!("store {}: action_received = {} but the reducer took {} actions (at most +1 for the shutdown marker)", s, received, nruns));
    }
    // received + dropped = dispatched while open
    let shutdown = d.stores[s].first_shutdown_inv.unwrap_or(usize::MAX);
    let mut d_lo = 0usize;
    let mut d_hi = 0usize;
    for x in d.disps.iter().filter(|x| d.store_of_act(x.act) == s) {
        let dispatcher_path = x.via == Some(Via::Dispatcher) || x.via.is_none();
        match x.ok {
            Some(true) => {
                d_lo += 1;
                d_hi += 1;
            }
            Some(false) => {
                // the store's own dispatch only fails when closed; through the Dispatcher
                // interface Err is either "closed" or a DropLatest discard (made while open)
                if dispatcher_path && policy == Pol::DropLatest {
                    if x.ret.map(|r| r < shutdown).unwrap_or(false) {
                        d_lo += 1;
                        d_hi += 1;
                    } else {
                        d_hi += 1;
                    }
                }
            }
            None => {}
        }
    }
    let runs_with_call = runs.iter().filter(|r| d.disp_of(r.act).is_some()).count();
    let total = runs_with_call + dropped;
    if total < d_lo || total > d_hi {
        viol.push(format!(
            "store {}: actions taken by the reducer ({}) + action_dropped ({}) = {} but {} dispatch calls were made while the store was open{}",
            s, runs_with_call, dropped, total, d_lo, if d_hi != d_lo { format!(" (up to {} counting calls that raced the shutdown)", d_hi) } else { String::new() }
        ));
    }
    let vetoed = runs.iter().filter(|r| r.vetoed).count();
    if reduced != nruns - vetoed {
        viol.push(format!("store {}: action_reduced = {} but {} actions were received and {} of them vetoed by a middleware", s, reduced, nruns, vetoed));
    }
    let eff: usize = runs.iter().map(|r| r.effects_returned.len()).sum();
    if effect_issued != eff {
        viol.push(format!("store {}: effect_issued = {} but the reducers returned {} effects", s, effect_issued, eff));
    }
    let hooks: usize = runs.iter().map(|r| r.hooks).sum();
    if mw_executed != hooks {
        viol.push(format!("store {}: middleware_executed = {} but {} middleware hooks were invoked", s, mw_executed, hooks));
    }
    let own_rejects = d.disps.iter().filter(|x| d.store_of_act(x.act) == s && matches!(x.via, Some(Via::Inherent) | Some(Via::StoreTrait)) && x.ok == Some(false)).count();
    if errors != own_rejects {
        viol.push(format!("store {}: error_occurred = {} but the store's own dispatch rejected {} calls", s, errors, own_rejects));
    }
    (d_lo, d_hi)
}

const COUNTERS: [&str; 8] = ["action_received", "action_dropped", "action_reduced", "effect_issued", "middleware_executed", "state_notified", "subscriber_notified", "error_occurred"];

pub fn monotone(d: &Digest, s: StoreIx, viol: &mut Vec<String>) -> usize {
    let mut snaps: Vec<(Pos, Pos, [usize; 8])> = d
        .ops
        .values()
        .filter_map(|o| match (d.op(o.th, o.ix), &o.res, o.ret) {
            (Some(Op::GetMetrics { store }), Some(Res::Metrics(m)), Some(ret)) if *store == s => Some((o.inv, ret, *m)),
            _ => None,
        })
        .collect();
    snaps.sort_by_key(|x| x.0);
    for (i, x) in snaps.iter().enumerate() {
        for y in snaps.iter().skip(i + 1) {
            if x.1 < y.0 {
                for k in 0..8 {
                    if y.2[k] < x.2[k] {
                        viol.push(format!("store {}: counter {} went from {} (snapshot returned at @{}) down to {} (snapshot taken at @{})", s, COUNTERS[k], x.2[k], x.1, y.2[k], y.0));
                    }
                }
            }
        }
    }
    snaps.len()
}

pub fn c18_check(scn: &Scenario, h: &History) -> Outcome {
    let mut out = Outcome::default();
    let Some((d, p)) = prepare("C18", false, scn, h, &mut out) else { return out };
    note_others(&p, &[], &mut out);
    let s = 0;
    // notifications discarded by a drop-policy *subscriber* channel share the dropped-actions counter
    // (section 1): such scenarios (borrowed generators) are outside the balance equations
    if scn.subs.iter().any(|x| matches!(x.kind, SubKind::Channeled { pol, .. } if pol != Pol::Block)) {
        return out;
    }
    // follow-ups of Effect::Action are dispatched by the store itself at an unobservable moment;
    // under a drop policy they take part in the drop accounting, so the number of dispatches made
    // while open is not observable there (the own generator uses them with BlockOnFull only)
    if scn.stores[s].policy != Pol::Block && scn.actions.iter().any(|a| a.store == s && a.effects.iter().any(|(_, e)| matches!(e.kind, EffKind::Action(_)))) {
        return out;
    }
    let mut v = vec![];
    let nsnaps = monotone(&d, s, &mut v);
    // the last snapshot taken after the stop
    let stop_ret = d.stores[s].first_stop_ret.unwrap_or(usize::MAX);
    let fin = d
        .ops
        .values()
        .filter(|o| o.th == 0 && o.inv > stop_ret && matches!(d.op(o.th, o.ix), Some(Op::GetMetrics { store }) if *store == s))
        .max_by_key(|o| o.inv)
        .and_then(|o| match &o.res {
            Some(Res::Metrics(m)) => Some(*m),
            _ => None,
        });
    let mut exact = false;
    if let Some(m) = fin {
        let (lo, hi) = metric_equations(&d, &p, s, &m, &mut v);
        exact = lo == hi;
        if m[1] > 0 {
            out.class("dropped");
        }
        if p.runs[s].iter().any(|r| r.vetoed) {
            out.class("veto");
        }
        if p.runs[s].iter().any(|r| !r.effects_returned.is_empty()) {
            out.class("effects");
        }
        if m[7] > 0 {
            out.class("rejected-after-close");
        }
        let producers = scn.threads.iter().filter(|t| t.iter().any(|o| matches!(o, Op::Dispatch { .. }))).count();
        if (m[1] > 0 || scn.stores[s].policy == Pol::Block) && (p.runs[s].iter().any(|r| r.vetoed) || p.runs[s].iter().any(|r| !r.effects_returned.is_empty())) && producers >= 2 && exact && m[1] + m[7] > 0 {
            out.nontrivial = true;
        }
    }
    if nsnaps >= 3 {
        out.class("sampled-concurrently");
    }
    if exact {
        out.class("dispatch-count-exact");
    }
    for m in v {
        out.viol(m);
    }
    out
}

pub static C18: Profile = Profile {
    id: "C18",
    rule: "proptest scenarios: every policy, capacity 1-4 (or the convenience constructors' defaults), 1-4 producers, 0-3 build-time reducers and run-time add_reducer / add_middleware / add_subscriber, 0-3 middlewares with verdict patterns (veto, Break, Err), every effect kind (follow-up actions only with BlockOnFull), a racing stop followed by more dispatches, client thunks, one sampler thread reading get_metrics() in a loop. Oracle O-METRIC after Ret(stop): counter equations against counts taken from the scripted callbacks' event log (received vs pipeline runs incl. marker, received+dropped vs dispatch calls made while open as an interval, reduced = received - vetoed, effect_issued, middleware_executed, error_occurred = rejected own-dispatch calls); per-counter monotonicity across snapshots ordered in real time. Non-trivial = >= 2 producers, a veto or an effect, something dropped or rejected, and the dispatched-while-open count exact; distinct by scenario hash.",
    raw,
    build: c18_build,
    check: c18_check,
    budget: Budget { r_cases: (4000, 30000), s_cases: (2000, 8000), s_scheds: (16, 64) },
    liveness: false,
    enumerate: None,
    extra: None,
    borrow: &["C01", "C02", "C03", "C04", "C05", "C06", "C07", "C08", "C09", "C10", "C11", "C12", "C13", "C14", "C15", "C19"],
    assumptions: &[
        "no drop-policy channeled subscribers are attached (their discards share the store's dropped-actions counter)",
        "time sums and min/max gauges are not event counters and are not checked",
    ],
};

// =============================================================================== C19

pub fn c19_build(raw: &Raw, _tier: Tier, _sched: bool) -> Scenario {
    let mut b = ScnB::new();
    let same_name = knob(raw, 0) % 2 == 0;
    let mut stores = vec![];
    for i in 0..2usize {
        let cap = CAPS[pick(knob(raw, 1 + i), CAPS.len())];
        let pol = POLS_MOSTLY_BLOCK[pick(knob(raw, 3 + i), POLS_MOSTLY_BLOCK.len())];
        let name = if same_name || i == 0 { "twin" } else { "other" };
        let s = b.store(name, cap, pol, CTORS[pick(knob(raw, 5 + i), 3)].clone());
        b.s.stores[s].droppable = i == 0 && knob(raw, 7) % 2 == 0;
        let nred = 1 + pick(knob(raw, 8 + i), 2);
        let reds: Vec<CompId> = (0..nred).map(|_| b.reducer(s)).collect();
        let nmw = pick(knob(raw, 10 + i), 2);
        let mws: Vec<CompId> = (0..nmw).map(|_| b.middleware(s)).collect();
        stores.push((s, reds, mws));
    }
    // half of the cases: every reducer and middleware of one store reads the state of the other
    // one from inside its callbacks (a read-only use of a second store in the reducer context)
    if knob(raw, 15) % 2 == 0 {
        for (s, reds, mws) in stores.clone() {
            for c in reds.iter().chain(mws.iter()) {
                b.comp_mut(*c).pokes = Some(1 - s);
            }
        }
    }
    // one subscriber object registered in both stores, plus one private subscriber each
    let shared = b.sub(SubKind::Direct);
    // when the shared object is released by store 0 it unsubscribes itself from store 1 as well
    // (a callback of one store operating on the other one)
    if knob(raw, 14) % 2 == 1 && (knob(raw, 14) >> 3) % 2 == 0 {
        // the shared object is the crate's FnSubscriber wrapper (one object for both stores)
        b.sub_mut(shared).fn_wrapped = true;
    }
    if knob(raw, 14) % 2 == 0 {
        b.sub_mut(shared).on_unsub_ops = vec![Op::Unsubscribe { store: 1, sub: shared }];
        if (knob(raw, 14) >> 2) % 2 == 0 {
            // ... and registers a successor on store 1 ("fail over when the primary goes away"):
            // a subscription made from inside store 0's release is a subscription like any other
            let heir = b.sub(SubKind::Direct);
            b.sub_mut(shared).on_unsub_ops.push(Op::Subscribe { store: 1, sub: heir });
        }
    }
    // half of the cases: one SelectorSubscriber object registered on both stores as well. The
    // selected values of the two stores are disjoint (see the end of this function), so a
    // notification of one store can never be explained by a delivery caused by the other
    let shared_sel = if (knob(raw, 14) >> 1) % 2 == 0 { Some(b.sub(SubKind::SelectorObj { fresh: false })) } else { None };
    let mut forwarder = None;
    for (s, _, _) in &stores {
        if let Some(x) = shared_sel {
            b.s.prelude.push(Op::Subscribe { store: *s, sub: x });
        }
        b.s.prelude.push(Op::Subscribe { store: *s, sub: shared });
        let own = b.sub(SubKind::Direct);
        if *s == 0 {
            // store 0's private subscriber forwards some actions into store 1 from inside
            // on_notify, i.e. from store 0's reducer thread
            b.sub_mut(own).forwards = true;
            forwarder = Some(own);
        }
        b.s.prelude.push(Op::Subscribe { store: *s, sub: own });
    }
    let _ = forwarder;
    let nthreads = raw.threads.len();
    let mut extra: Vec<(StoreIx, SubId)> = vec![];
    for (t, ops) in raw.threads.iter().enumerate() {
        let th = b.thread();
        for r in ops {
            let (s, reds, mws) = stores[(r.k as usize >> 7) % 2].clone();
            let op = match r.k % 16 {
                0..=10 => {
                    let o = ActOpts { reducers: &reds, middlewares: &mws, effects: true, followups: b.s.stores[s].policy == Pol::Block, veto: true, keeps: true, panics: false };
                    let a = scripted_action(&mut b, s, r, &o);
                    if s == 0 && (r.k >> 9) % 3 == 0 {
                        let f = b.action(1, 0);
                        b.act_mut(a).forward = Some(f);
                    }
                    Op::Dispatch { act: a, via: via_of(r) }
                }
                11 => Op::GetState { store: s },
                12 => Op::GetMetrics { store: s },
                13 => Op::Unsubscribe { store: 0, sub: shared },
                14 => {
                    let f = b.action(s, 0);
                    let e = b.eff(EffKind::Thunk(vec![f]), false, stall_of(r.a));
                    Op::DispatchThunk { store: s, eff: e }
                }
                // clients of both stores register (and later cancel) subscribers of their own at the
                // same time: what one store hands out must not depend on the other
                15 if (r.k >> 4) % 2 == 0 && extra.len() < 6 => {
                    let sub = b.sub(SubKind::Direct);
                    extra.push((s, sub));
                    Op::Subscribe { store: s, sub }
                }
                15 if !extra.is_empty() => {
                    let (es, esub) = extra[pick(r.a, extra.len())];
                    Op::Unsubscribe { store: es, sub: esub }
                }
                _ => Op::Stall(stall_of(r.a)),
            };
            b.s.threads[th].push(op);
        }
        // store 0 is stopped / dropped by the last thread while the other store is under load -
        // or, in half of the cases, stopped from inside an effect of store 1 (i.e. on a worker
        // thread that belongs to the *other* store's pool)
        if t + 1 == nthreads && knob(raw, 13) % 2 == 1 {
            let (s1, reds1, _) = stores[1].clone();
            let a = b.action(s1, 0);
            let mut e = b.eff(EffKind::Task, false, Stall::None);
            e.ops = vec![Op::Stop { store: 0, via_trait: false }, Op::GetState { store: 0 }];
            b.act_mut(a).effects.push((reds1[0], e));
            let at = pick(knob(raw, 12), b.s.threads[th].len() + 1);
            b.s.threads[th].insert(at, Op::Dispatch { act: a, via: Via::Inherent });
        } else if t + 1 == nthreads {
            let at = pick(knob(raw, 12), b.s.threads[th].len() + 1);
            let op = if b.s.stores[0].droppable { Op::DropDroppable { store: 0 } } else { Op::Stop { store: 0, via_trait: false } };
            b.s.threads[th].insert(at, op);
        }
    }
    // half of the cases: each store also has a channeled (blocking) subscriber, and the one of
    // store 1 cancels the one of store 0 from inside its callback, i.e. on store 1's delivery
    // thread (which, for same-named stores, has the same thread name as store 0's)
    if (knob(raw, 15) >> 1) % 2 == 0 {
        let acts1: Vec<ActId> = b.s.threads.iter().flatten().filter_map(|o| match o { Op::Dispatch { act, .. } if b.s.actions[*act as usize].store == 1 => Some(*act), _ => None }).collect();
        let ch0 = b.sub(SubKind::Channeled { cap: 1 + (knob(raw, 15) >> 2) as usize % 3, pol: Pol::Block, default_ctor: false });
        let ch1 = b.sub(SubKind::Channeled { cap: 2, pol: Pol::Block, default_ctor: false });
        b.sub_mut(ch0).stall = stall_of(knob(raw, 15) >> 4);
        b.s.prelude.push(Op::Subscribe { store: 0, sub: ch0 });
        b.s.prelude.push(Op::Subscribe { store: 1, sub: ch1 });
        if !acts1.is_empty() {
            let trigger = acts1[pick(knob(raw, 11).rotate_left(7), acts1.len())];
            b.sub_mut(ch1).on_notify_ops.push((trigger, vec![Op::Unsubscribe { store: 0, sub: ch0 }]));
        }
    }
    for a in b.s.actions.iter_mut() {
        a.sel = a.sel % 2 + 2 * a.store as u8;
    }
    b.s.epilogue.push(Op::Stop { store: 0, via_trait: false });
    b.s.epilogue.push(Op::Stop { store: 1, via_trait: false });
    for s in 0..2 {
        b.s.epilogue.push(Op::GetState { store: s });
        b.s.epilogue.push(Op::GetMetrics { store: s });
    }
    b.finish()
}

pub fn c19_check(scn: &Scenario, h: &History) -> Outcome {
    let mut out = Outcome::default();
    // a store that stops making progress because another one was stopped / dropped is a violation
    // (the scenarios contain no iterators, so the known C13 findings cannot be the cause)
    let Some((d, p)) = prepare("C19", true, scn, h, &mut out) else { return out };
    // every per-store oracle on each store's sub-log: nothing of A may show in B
    for m in findings_of(&p, &[Kind::Isolation, Kind::Fold, Kind::Notify, Kind::Phase, Kind::Verdict]) {
        out.viol(m);
    }
    // nothing arrives after an unsubscribe() returned - also when the unsubscribe of store 1 was
    // issued from inside store 0's on_unsubscribe
    for s in 0..2 {
        classify_late(&d, &p, s, false, &mut out);
    }
    if d.ops.values().any(|o| o.th >= 2000) {
        out.class("chained-unsubscribe-from-other-stores-callback");
    }
    // channeled subscribers: nothing is delivered after the unsubscribe() that cancelled them has
    // returned - whichever thread of whichever store issued it
    for (s, sd) in d.stores.iter().enumerate() {
        for (sub, iv) in &sd.subs {
            if !matches!(d.sub_kind(*sub), SubKind::Channeled { .. }) {
                continue;
            }
            out.class("channeled-subscriber-on-each-store");
            if let Some(ur) = iv.unsub_ret {
                for (pos, r) in h.recs.iter().enumerate().skip(ur + 1) {
                    if matches!(&r.ev, Ev::NotIn { sub: x, .. } if x == sub) {
                        out.viol(format!("store {}: channeled subscriber {} was called at @{} after the unsubscribe() that cancelled it had returned at @{}", s, sub, pos, ur));
                        break;
                    }
                }
            }
        }
    }
    // a selector object shared by the two stores: no notification of either store is lost,
    // duplicated or invented because the other store uses the object at the same time
    for sp in scn.subs.iter().filter(|x| matches!(x.kind, SubKind::SelectorObj { .. })) {
        for m in shared_selector_check(&d, sp.id) {
            out.viol(m);
        }
        out.class("selector-object-shared-by-both-stores");
    }
    let stops0: Vec<&OpRec> = d
        .ops
        .values()
        .filter(|o| o.th != 0 && matches!(d.op(o.th, o.ix), Some(Op::Stop { store: 0, .. }) | Some(Op::DropDroppable { store: 0 })) && o.res != Some(Res::Skipped))
        .collect();
    let stop0_ret = stops0.iter().filter_map(|o| o.ret).min();
    // exactly one stop of store 0 before the clean-up: its return is a barrier for store 0, whoever
    // called it (a client thread or a worker of the other store)
    if stops0.len() == 1 {
        if let Some(sr) = stops0[0].ret {
            for (pos, r) in h.recs.iter().enumerate().skip(sr + 1) {
                let act = match &r.ev {
                    Ev::MwIn { act, .. } | Ev::RedIn { act, .. } | Ev::NotIn { act, .. } => Some(*act),
                    _ => None,
                };
                if let Some(a) = act {
                    if d.store_of_act(a) == 0 {
                        out.viol(format!("store 0 was still processing action {} at @{} after its stop() (called from {}) had returned at @{}", a, pos, if stops0[0].th >= 1000 { "an effect running on a worker of store 1" } else { "a client thread" }, sr));
                        break;
                    }
                }
            }
            if stops0[0].th >= 1000 {
                out.class("stopped-from-other-stores-worker");
            }
        }
    }
    let stop0_inv = d.stores[0].first_stop_inv;
    let mut v = vec![];
    let mut lost = vec![];
    check_effects(&d, &p, false, &mut v, &mut lost);
    for s in 0..2 {
        let runs = &p.runs[s];
        let block = scn.stores[s].policy == Pol::Block;
        let own_stop_inv = d.stores[s].first_shutdown_inv.unwrap_or(usize::MAX);
        for x in d.disps.iter().filter(|x| d.store_of_act(x.act) == s) {
            let reduced = runs.iter().any(|r| r.act == x.act);
            if block && x.ok == Some(true) && !reduced {
                out.viol(format!("store {}: action {} was accepted but never reduced", s, x.act));
            }
            if x.ok == Some(false) && reduced {
                out.viol(format!("store {}: action {} was rejected but reduced", s, x.act));
            }
            // acceptance: store s rejects only because of its *own* shutdown
            let reject_means_closed = matches!(x.via, Some(Via::Inherent) | Some(Via::StoreTrait)) || scn.stores[s].policy != Pol::DropLatest;
            if reject_means_closed && x.ok == Some(false) && x.ret.map(|r| r < own_stop_inv).unwrap_or(false) {
                out.viol(format!("store {}: dispatch of action {} was rejected although no shutdown of this store had been invoked (another store was stopped?)", s, x.act));
            }
        }
        // final state and metrics of each store follow from its own pipeline only
        let stop_ret = d.stores[s].first_stop_ret.unwrap_or(usize::MAX);
        for o in d.ops.values().filter(|o| o.th == 0 && o.inv > stop_ret) {
            match (d.op(o.th, o.ix), &o.res) {
                (Some(Op::GetState { store }), Some(Res::State(st))) if *store == s => {
                    if *st != p.final_state[s] {
                        out.viol(format!("store {}: final state {:?} differs from the fold of its own actions {:?}", s, st, p.final_state[s]));
                    }
                }
                _ => {}
            }
        }
        let fin = d
            .ops
            .values()
            .filter(|o| o.th == 0 && matches!(d.op(o.th, o.ix), Some(Op::GetMetrics { store }) if *store == s))
            .max_by_key(|o| o.inv)
            .and_then(|o| match &o.res {
                Some(Res::Metrics(m)) => Some(*m),
                _ => None,
            });
        if let Some(m) = fin {
            metric_equations(&d, &p, s, &m, &mut v);
        }
        monotone(&d, s, &mut v);
    }
    for m in v {
        out.viol(m);
    }
    // an effect of store X runs whatever store Y is doing: every effect returned for an action that
    // store X accepted before its own stop() was called has run by the end
    for (e, a) in lost {
        let s = d.store_of_act(a);
        let own_stop_inv = d.stores[s].first_stop_inv.unwrap_or(usize::MAX);
        let accepted_before_stop = d.disp_of(a).map(|x| x.ok == Some(true) && x.ret.map(|r| r < own_stop_inv).unwrap_or(false)).unwrap_or(false);
        if accepted_before_stop {
            out.viol(format!("store {}: effect {} returned for action {} (accepted before that store's stop() was called) was never executed", s, e, a));
        }
    }
    // store 1 keeps working after store 0 was stopped
    let mut busy_after = false;
    if let Some(sr) = stop0_ret {
        for x in d.disps.iter().filter(|x| d.store_of_act(x.act) == 1 && x.inv > sr && matches!(x.src, Src::Client { .. })) {
            busy_after = true;
            let reject_means_closed = matches!(x.via, Some(Via::Inherent) | Some(Via::StoreTrait)) || scn.stores[1].policy != Pol::DropLatest;
            let own_stop_inv = d.stores[1].first_shutdown_inv.unwrap_or(usize::MAX);
            if reject_means_closed && x.ok == Some(false) && x.ret.map(|r| r < own_stop_inv).unwrap_or(false) {
                out.viol(format!("store 1: dispatch of action {} was rejected after store 0 was stopped (store 1 was still open)", x.act));
            }
        }
    }
    let in_flight = match (stop0_inv, stop0_ret) {
        (Some(si), Some(sr)) => p.runs[1].iter().any(|r| r.first < sr && r.last > si) || d.disps.iter().any(|x| d.store_of_act(x.act) == 1 && x.inv < sr && x.ret.map(|r| r > si).unwrap_or(true)),
        _ => false,
    };
    if in_flight {
        out.class("other-store-in-flight-during-stop");
    }
    if busy_after {
        out.class("other-store-used-after-stop");
    }
    if scn.stores[0].name == scn.stores[1].name {
        out.class("same-name");
    }
    if scn.stores[0].droppable {
        out.class("dropped");
    }
    let shared_unsub = d.stores[0].subs.iter().any(|(x, iv)| *x == 0 && iv.unsub_ret.is_some());
    if shared_unsub {
        out.class("shared-subscriber-unsubscribed-from-one");
    }
    if d.disps.iter().any(|x| matches!(x.src, Src::Nest(Nest::Sub(..)))) {
        out.class("forwarded-from-the-other-stores-reducer-thread");
    }
    if in_flight || busy_after {
        out.nontrivial = true;
    }
    out
}

pub static C19: Profile = Profile {
    id: "C19",
    rule: "proptest scenarios: two stores with equal or different configuration (same name half of the time, the same scripted reducer/middleware types, one subscriber object registered in both (a scripted Subscriber, or the crate's FnSubscriber wrapper) plus a private one each, in half of the cases also one SelectorSubscriber object registered in both, the two stores selecting disjoint values), 1-4 client threads operating on both (dispatch through every entry point, thunks, get_state, get_metrics, unsubscribe of the shared subscriber from store 0 (whose on_unsubscribe may in turn unsubscribe it from store 1 and register a successor there); a subscriber of store 0 forwarding actions into store 1 from store 0's reducer thread; in half of the cases every reducer and middleware of one store calls get_state() of the other store from inside its callbacks), store 0 stopped or dropped at a generated point while store 1 is in use. Oracle O-ISOL: the C01/C03/C07/C12 pipeline model, effect, acceptance and C18 metric equations evaluated per store on that store's sub-log; no callback of one store ever carries a component or action of the other; store 1 keeps accepting and reducing after Ret(stop store 0). Non-trivial = store 1 had an action in flight while store 0 was being stopped, or was used after it; distinct by scenario hash.",
    raw,
    build: c19_build,
    check: c19_check,
    budget: Budget { r_cases: (3000, 20000), s_cases: (3000, 8000), s_scheds: (16, 64) },
    liveness: true,
    enumerate: None,
    extra: None,
    borrow: &[],
    assumptions: &["only store 0 is stopped early; store 1 is stopped by the epilogue"],
};
