//! C04 — stop() is a barrier and is final; C15 — dropping a DroppableStore is stop().
use super::common::*;
use crate::build::*;
use crate::digest::*;
use crate::log::*;
use crate::pipe::{Kind, Tri};
use crate::profile::*;
use crate::scenario::*;

fn raw(tier: Tier) -> proptest::strategy::BoxedStrategy<Raw> {
    match tier {
        Tier::Quick => raw_strategy(3, 10),
        Tier::Thorough => raw_strategy(3, 20),
    }
}

/// A `subscribed()` subscriber (default constructor: 16 slots, blocking) that is held inside its
/// first callback while 20 notifying actions are dispatched. D1 is registered before it and signals
/// every notification: when D1 has been told about 18 of them the reducer is (at the latest) waiting
/// for room in C's channel - 1 in the callback, 16 queued, the 18th in its hands - and only then is
/// C let go. Everything must reach C before stop() / the drop returns.
fn build_lagging_default_subscriber(raw: &Raw, droppable: bool) -> Scenario {
    let mut b = ScnB::new();
    let s = b.store(if droppable { "c15" } else { "c04" }, SMALL_CAPS4[pick(knob(raw, 0), 4)], Pol::Block, CTORS[pick(knob(raw, 2), 3)].clone());
    b.s.stores[s].droppable = droppable;
    let r0 = b.reducer(s);
    let d1 = b.sub(SubKind::Direct);
    let c = b.sub(SubKind::Channeled { cap: 16, pol: Pol::Block, default_ctor: true });
    let cg = b.gate();
    b.sub_mut(c).gate = Some(cg);
    b.sub_mut(c).via_trait = knob(raw, 3) % 2 == 0;
    b.s.prelude.push(Op::Subscribe { store: s, sub: d1 });
    b.s.prelude.push(Op::Subscribe { store: s, sub: c });
    let progress = b.gate();
    let th = b.thread();
    let n = 19 + pick(knob(raw, 4), 4);
    for i in 0..n {
        let a = b.action(s, (i % 4) as u8);
        b.act_mut(a).signal = Some(progress);
        b.s.threads[th].push(Op::Dispatch { act: a, via: VIAS[(knob(raw, 5) as usize + i) % 3] });
    }
    let ctl = b.thread();
    b.s.threads[ctl].push(Op::GateAwait { gate: progress, entered: 18 });
    b.s.threads[ctl].push(Op::Stall(stall_of(knob(raw, 6))));
    b.s.threads[ctl].push(Op::GateOpen { gate: cg });
    let done = b.gate();
    b.s.threads[th].push(Op::GateSignal { gate: done });
    let st = b.thread();
    b.s.threads[st].push(Op::GateAwait { gate: done, entered: 1 });
    if droppable {
        b.s.threads[st].push(Op::DropDroppable { store: s });
    } else {
        b.s.threads[st].push(Op::Stop { store: s, via_trait: false });
    }
    b.s.threads[st].push(Op::GetState { store: s });
    let _ = r0;
    b.s.epilogue.push(Op::GetState { store: s });
    b.finish()
}
const SMALL_CAPS4: [usize; 4] = [1, 2, 4, 16];

fn build_barrier(raw: &Raw, droppable: bool) -> Scenario {
    if (knob(raw, 1) >> 6) % 16 == 0 {
        return build_lagging_default_subscriber(raw, droppable);
    }
    let mut b = ScnB::new();
    let cap = CAPS[pick(knob(raw, 0), CAPS.len())];
    let policy = POLS_MOSTLY_BLOCK[pick(knob(raw, 1), POLS_MOSTLY_BLOCK.len())];
    let ctor = CTORS[pick(knob(raw, 2), 3)].clone();
    let s = b.store(if droppable { "c15" } else { "c04" }, cap, policy, ctor);
    b.s.stores[s].droppable = droppable;
    let nred = 1 + pick(knob(raw, 3), 2);
    let reds: Vec<CompId> = (0..nred).map(|_| b.reducer(s)).collect();
    let gated = knob(raw, 4) % 2 == 0;
    let gate = if gated {
        let g = b.gate();
        b.comp_mut(reds[0]).gate = Some(g);
        Some(g)
    } else {
        None
    };
    let nmw = pick(knob(raw, 5), 2);
    let mws: Vec<CompId> = (0..nmw).map(|_| b.middleware(s)).collect();
    // subscribers: direct + channeled (blocking), whole run
    let ndirect = pick(knob(raw, 6), 3);
    let mut early: Vec<SubId> = vec![];
    for _ in 0..ndirect {
        let sub = b.sub(SubKind::Direct);
        b.s.prelude.push(Op::Subscribe { store: s, sub });
        early.push(sub);
    }
    if knob(raw, 7) % 2 == 0 {
        let sub = b.sub(SubKind::Channeled { cap: 1 + (knob(raw, 8) % 3) as usize, pol: Pol::Block, default_ctor: knob(raw, 8) % 5 == 0 });
        b.sub_mut(sub).stall = stall_of(knob(raw, 9));
        b.s.prelude.push(Op::Subscribe { store: s, sub });
        early.push(sub);
    }
    // producers
    let mut late = 0;
    let mut late_iter = false;
    for ops in raw.threads.iter() {
        let th = b.thread();
        for r in ops {
            let op = match r.k % 16 {
                0..=11 => {
                    // half of the scenarios: reducers return effects, incl. Effect::Action / thunk
                    // follow-ups that a worker dispatches whenever it gets to it - before, during
                    // or after the stop (then they are rejected; that must not hurt anybody)
                    let with_effects = knob(raw, 9) % 2 == 0;
                    let o = ActOpts { reducers: &reds, middlewares: &mws, effects: with_effects, followups: with_effects, veto: true, keeps: true, panics: false };
                    let a = scripted_action(&mut b, s, r, &o);
                    Op::Dispatch { act: a, via: via_of(r) }
                }
                12 => {
                    let f = b.action(s, 0);
                    let e = b.eff(EffKind::Thunk(vec![f]), false, stall_of(r.a));
                    Op::DispatchThunk { store: s, eff: e }
                }
                13 => {
                    let e = b.eff(EffKind::Task, false, stall_of(r.a));
                    Op::DispatchTask { store: s, eff: e }
                }
                14 => Op::GetState { store: s },
                // a client (of a clone, for the droppable flavour) that registers something while
                // the stop / drop may be under way: it must still be released exactly once
                15 if (r.k >> 4) % 4 == 0 && late < 3 => {
                    late += 1;
                    let sub = b.sub(SubKind::Direct);
                    Op::Subscribe { store: s, sub }
                }
                15 if (r.k >> 4) % 4 == 1 && late < 3 => {
                    late += 1;
                    let sub = b.sub(SubKind::Channeled { cap: 1 + (r.a % 3) as usize, pol: Pol::Block, default_ctor: r.a % 5 == 0 });
                    Op::Subscribe { store: s, sub }
                }
                15 if (r.k >> 4) % 4 == 2 && !late_iter => {
                    late_iter = true;
                    let it = b.iter_id();
                    Op::Iter { store: s, it, consume: Consume::UntilNone, ready: None }
                }
                // an unsubscribe() that may overlap the stop / drop: unsubscribing is not a shutdown,
                // and whatever it still has to flush is flushed before the barrier is passed
                15 if (r.k >> 4) % 4 == 3 && !early.is_empty() => Op::Unsubscribe { store: s, sub: early[pick(r.a, early.len())] },
                _ => Op::Stall(stall_of(r.a)),
            };
            b.s.threads[th].push(op);
        }
    }
    // stopper thread
    let st = b.thread();
    let lead = pick(knob(raw, 10), 4);
    for i in 0..lead {
        b.s.threads[st].push(Op::Stall(stall_of(knob(raw, 11).wrapping_add(i as u16 * 3))));
    }
    // close() (on a clone, for the droppable flavour) before the stop / drop
    if knob(raw, 12) % 4 == 0 {
        b.s.threads[st].push(Op::Close { store: s });
    }
    if droppable {
        b.s.threads[st].push(Op::DropDroppable { store: s });
    } else {
        b.s.threads[st].push(Op::Stop { store: s, via_trait: knob(raw, 12) % 2 == 1 });
    }
    // afterwards: everything must be rejected / inert
    for i in 0..3u16 {
        let a = b.action(s, 0);
        b.s.threads[st].push(Op::Dispatch { act: a, via: VIAS[((knob(raw, 13) % 3 + i) % 3) as usize] });
    }
    let f = b.action(s, 0);
    let e = b.eff(EffKind::Thunk(vec![f]), false, Stall::None);
    b.s.threads[st].push(Op::DispatchThunk { store: s, eff: e });
    let e = b.eff(EffKind::Task, false, Stall::None);
    b.s.threads[st].push(Op::DispatchTask { store: s, eff: e });
    b.s.threads[st].push(Op::Stop { store: s, via_trait: false });
    b.s.threads[st].push(Op::GetState { store: s });
    // controller: releases the gated reducer in batches, always opens the gate at the end
    if let Some(g) = gate {
        let c = b.thread();
        let steps = pick(knob(raw, 14), 5);
        for i in 0..steps {
            b.s.threads[c].push(Op::Stall(stall_of(knob(raw, 15).wrapping_add(i as u16))));
            b.s.threads[c].push(Op::GateRelease { gate: g, n: 1 + (knob(raw, 15) >> (2 * i)) as u32 % 3 });
        }
        b.s.threads[c].push(Op::Stall(stall_of(knob(raw, 13))));
        b.s.threads[c].push(Op::GateOpen { gate: g });
    }
    b.s.epilogue.push(Op::GetState { store: s });
    b.finish()
}

pub fn c04_build(raw: &Raw, _tier: Tier, _sched: bool) -> Scenario {
    build_barrier(raw, false)
}
pub fn c15_build(raw: &Raw, _tier: Tier, _sched: bool) -> Scenario {
    build_barrier(raw, true)
}

fn check_barrier(id: &'static str, scn: &Scenario, h: &History) -> Outcome {
    let mut out = Outcome::default();
    // stop() that cannot complete is a violation of this property (S: deadlock)
    let Some((d, p)) = prepare(id, true, scn, h, &mut out) else { return out };
    note_others(&p, &[], &mut out);
    let word = if id == "C15" { "drop of the DroppableStore" } else { "stop()" };
    for (s, sd) in d.stores.iter().enumerate() {
        // the barrier: Ret of the first Stop / DropDroppable client op (not the clean-up)
        let stop_op = d
            .ops
            .values()
            .filter(|o| matches!(d.op(o.th, o.ix), Some(Op::Stop { store, .. }) | Some(Op::DropDroppable { store }) if *store == s))
            .filter(|o| o.res != Some(Res::Skipped))
            .min_by_key(|o| o.inv);
        let Some(stop_op) = stop_op else { continue };
        let Some(sr) = stop_op.ret else { continue };
        let si = stop_op.inv;
        let block = scn.stores[s].policy == Pol::Block;
        let runs = &p.runs[s];
        let mut racing_ok = false;
        let mut racing_err = false;
        let mut backlog = 0;
        for disp in d.disps.iter().filter(|x| d.store_of_act(x.act) == s) {
            let run = runs.iter().find(|r| r.act == disp.act);
            let overlaps = disp.inv < sr && disp.ret.map(|r| r > si).unwrap_or(true);
            match disp.ok {
                Some(true) => {
                    if overlaps {
                        racing_ok = true;
                    }
                    if block {
                        match run {
                            None => out.viol(format!("dispatch of action {} returned Ok (BlockOnFull) but the action was never processed although {} returned", disp.act, word)),
                            Some(r) => {
                                if r.last > sr {
                                    out.viol(format!("action {} (dispatch returned Ok) was still being processed at @{} after {} had returned at @{}", disp.act, r.last, word, sr));
                                }
                                if disp.ret.map(|x| x < si).unwrap_or(false) && r.first > si {
                                    backlog += 1;
                                }
                            }
                        }
                    }
                    if disp.inv > sr {
                        out.viol(format!("dispatch of action {} was invoked at @{} after {} returned at @{} and returned Ok", disp.act, disp.inv, word, sr));
                    }
                }
                Some(false) => {
                    if overlaps {
                        racing_err = true;
                    }
                    if run.is_some() {
                        out.viol(format!("dispatch of action {} returned Err but the action was reduced", disp.act));
                    }
                }
                None => {}
            }
            if disp.inv > sr && run.is_some() {
                out.viol(format!("action {} dispatched after {} returned was processed", disp.act, word));
            }
        }
        // (c) nothing runs after the barrier - including on_unsubscribe of a subscriber that was
        // registered before the stop began (it was released by then, once) and on_error of a middleware
        for (pos, r) in h.recs.iter().enumerate().skip(sr + 1) {
            if let Some(cl) = d.cleanup_in {
                if pos > cl {
                    break; // the harness' own clean-up (stops and unsubscribes everything once more) is not judged
                }
            }
            match &r.ev {
                Ev::Unsub { sub } => {
                    if let Some((_, iv)) = sd.subs.iter().find(|(x, _)| x == sub) {
                        if iv.add_ret.map(|x| x < si).unwrap_or(false) && !scn.sub(*sub).fn_wrapped {
                            out.viol(format!("on_unsubscribe of subscriber {} (registered before {} was called) ran at @{} after {} had returned at @{}", sub, word, pos, word, sr));
                        }
                    }
                }
                Ev::MwErr { comp } => {
                    if sd.middlewares.iter().any(|(c, _)| c == comp) {
                        out.viol(format!("on_error of middleware {} ran at @{} after {} had returned at @{}", comp, pos, word, sr));
                    }
                }
                _ => {}
            }
        }
        for (pos, r) in h.recs.iter().enumerate().skip(sr + 1) {
            let (act, what): (Option<ActId>, &str) = match &r.ev {
                Ev::MwIn { act, .. } | Ev::MwOut { act, .. } => (Some(*act), "middleware hook"),
                Ev::RedIn { act, .. } | Ev::RedOut { act, .. } => (Some(*act), "reducer"),
                Ev::NotIn { act, .. } | Ev::NotOut { act, .. } => (Some(*act), "subscriber callback"),
                Ev::SelCb { act, .. } => (Some(*act), "selector callback"),
                _ => (None, ""),
            };
            if let Some(a) = act {
                if d.store_of_act(a) == s {
                    out.viol(format!("{} for action {} ran at @{} after {} had returned at @{}", what, a, pos, word, sr));
                    break;
                }
            }
        }
        // thunks / tasks: started before the barrier => finished before it; handed over after it => never run
        let client_effs: Vec<(&OpRec, &EffSpec)> = d
            .ops
            .values()
            .filter_map(|o| match d.op(o.th, o.ix) {
                Some(Op::DispatchThunk { store, eff }) | Some(Op::DispatchTask { store, eff }) if *store == s => Some((o, eff)),
                _ => None,
            })
            .collect();
        let obs = effect_obs(&d);
        for (o, e) in client_effs {
            let starts = obs.starts.get(&e.id).cloned().unwrap_or_default();
            let ends = obs.ends.get(&e.id).cloned().unwrap_or_default();
            if starts.len() > 1 {
                out.viol(format!("thunk/task {} ran {} times", e.id, starts.len()));
            }
            if o.inv > sr && !starts.is_empty() {
                out.viol(format!("thunk/task {} was handed to the store after {} returned but was executed", e.id, word));
            }
            for (pos, tid) in &starts {
                if *pos > sr {
                    out.viol(format!("thunk/task {} started at @{} after {} had returned at @{}", e.id, pos, word, sr));
                }
                if in_reducer_context(&d, s, *pos, *tid) {
                    out.viol(format!("thunk/task {} ran in the reducer context", e.id));
                }
            }
            for pos in ends {
                if pos > sr {
                    out.viol(format!("thunk/task {} was still running after {} returned", e.id, word));
                }
            }
        }
        // channeled (blocking) whole-run subscribers are flushed: same stream as the model's notifying runs
        for (sub, iv) in &sd.subs {
            if let SubKind::Channeled { pol: Pol::Block, .. } = d.sub_kind(*sub) {
                if iv.unsub_inv.is_some() {
                    continue;
                }
                let got: Vec<ActId> = h.recs[..=sr].iter().filter_map(|r| match &r.ev {
                    Ev::NotOut { sub: s2, act, .. } if s2 == sub => Some(*act),
                    _ => None,
                }).collect();
                let late = h.recs[sr + 1..].iter().any(|r| matches!(&r.ev, Ev::NotIn { sub: s2, .. } | Ev::NotOut { sub: s2, .. } if s2 == sub));
                if late {
                    out.viol(format!("channeled subscriber {} was still being called after {} had returned", sub, word));
                }
                let must: Vec<ActId> = runs
                    .iter()
                    .filter(|r| r.notify == Tri::Yes && iv.add_ret.map(|x| d.disp_of(r.act).map(|dd| x < dd.inv).unwrap_or(false)).unwrap_or(false))
                    .map(|r| r.act)
                    .collect();
                for a in &must {
                    if !got.contains(a) {
                        out.viol(format!("channeled subscriber {} had not been given action {} when {} returned (not flushed)", sub, a, word));
                    }
                }
                out.class("channeled-subscriber");
            }
        }
        // "completely processed - reduced, subscribers notified": a direct subscriber that was
        // registered before an accepted action was dispatched (and stayed) was told about it
        for f in p.findings.iter().filter(|f| f.kind == Kind::Notify && f.store == s && f.msg.contains("was not notified")) {
            out.viol(format!("[Notify] store {} @{}: {}", f.store, f.pos, f.msg));
        }
        // final state: every clone sees the state after the last reduced action
        for o in d.ops.values() {
            if let (Some(Op::GetState { store }), Some(Res::State(st))) = (d.op(o.th, o.ix), &o.res) {
                if *store == s && o.inv > sr && *st != p.final_state[s] {
                    out.viol(format!("get_state() after {} returned {:?}, the state after the last reduced action is {:?}", word, st, p.final_state[s]));
                }
            }
        }
        // second stop returned (it is in the log) - nothing to add beyond (c)
        if id == "C15" {
            // "exactly the effect of stop()": the effects of the actions accepted before the drop
            // was called have run when it returns (what stop() owes them, C11)
            let mut v = vec![];
            let mut lost = vec![];
            check_effects(&d, &p, false, &mut v, &mut lost);
            for (e, a) in lost {
                if d.store_of_act(a) != s {
                    continue;
                }
                let accepted_before = d.disp_of(a).map(|x| x.ok == Some(true) && x.ret.map(|r| r < si).unwrap_or(false)).unwrap_or(false);
                if accepted_before {
                    out.viol(format!("effect {} returned for action {} (accepted before the drop) had not been executed when the drop returned", e, a));
                }
            }
            // subscribers released: every whole-run direct/channeled subscriber got on_unsubscribe before the drop returned
            // ... and so did every subscriber registered through a clone while the drop was under
            // way or after it: once the drop and its own registration have both returned
            for (sub, iv) in &sd.subs {
                let Some(ar) = iv.add_ret else { continue };
                if iv.unsub_inv.is_some() {
                    continue;
                }
                if matches!(d.sub_kind(*sub), SubKind::Selector { .. }) || scn.sub(*sub).fn_wrapped {
                    continue;
                }
                let by = sr.max(ar);
                let n = h.recs[..=by].iter().filter(|r| matches!(&r.ev, Ev::Unsub { sub: s2 } if s2 == sub)).count();
                if n != 1 {
                    out.viol(format!(
                        "subscriber {} (registration returned at @{}) had received on_unsubscribe {} times when the drop (returned at @{}) and its registration had both returned (expected exactly once)",
                        sub, ar, n, sr
                    ));
                }
                if ar > si {
                    out.class("subscriber-registered-during-or-after-the-drop");
                }
            }
        }
        if racing_ok {
            out.class("racing-dispatch-ok");
        }
        if racing_err {
            out.class("racing-dispatch-err");
        }
        if backlog > 0 {
            out.class("backlog-at-stop");
        }
        if !block {
            out.class("drop-policy");
        }
        if d.ops.values().any(|o| matches!(d.op(o.th, o.ix), Some(Op::Close { .. })) && o.inv < si) {
            out.class("close-then-stop");
        }
        if racing_ok || racing_err || backlog > 0 {
            out.nontrivial = true;
        }
    }
    out
}

pub fn c04_check(scn: &Scenario, h: &History) -> Outcome {
    check_barrier("C04", scn, h)
}
pub fn c15_check(scn: &Scenario, h: &History) -> Outcome {
    check_barrier("C15", scn, h)
}

pub static C04: Profile = Profile {
    id: "C04",
    rule: "proptest scenarios: 1-3 producers (three entry points, client thunks/tasks) racing one stopping thread; optional gated reducer released by a controller thread so that a backlog exists at stop(); whole-run direct and blocking channeled subscribers; optional close() before stop(); after the stop the stopping thread dispatches through each entry point, hands over a thunk and a task, stops again and reads the state. Oracle O-BARRIER on the event log with Ret(stop) as the barrier. Non-trivial = some dispatch overlaps the stop call OR the backlog at Inv(stop) is >= 1; classes racing-dispatch-ok / racing-dispatch-err counted separately; distinct by scenario hash.",
    raw,
    build: c04_build,
    check: c04_check,
    budget: Budget { r_cases: (3000, 20000), s_cases: (6000, 20000), s_scheds: (16, 64) },
    liveness: true,
    enumerate: None,
    extra: None,
    borrow: &[],
    assumptions: &["exactly one client stop() races the producers (racing shutdowns are excluded by the statement); the clean-up stop comes after all threads were joined", "real threads: a stop() that took >= 2.5 s is set aside as inconclusive (internal 3 s timeout)"],
};

pub static C15: Profile = Profile {
    id: "C15",
    rule: "C04's generator with `drop(DroppableStore)` in place of stop() (optionally preceded by close() on a clone): 1-3 producer threads using outstanding clones of the inner handle, optional gated reducer (backlog at the drop), subscribers; afterwards dispatch through every entry point on a clone, thunk/task hand-over, stop(), get_state(). Oracle O-BARRIER with Ret(drop) as the barrier + every subscriber released exactly once + final state on clones. Non-trivial = backlog >= 1 at the drop or a dispatch on a clone racing it; distinct by scenario hash.",
    raw,
    build: c15_build,
    check: c15_check,
    budget: Budget { r_cases: (3000, 20000), s_cases: (4000, 10000), s_scheds: (16, 64) },
    liveness: true,
    enumerate: None,
    extra: None,
    borrow: &[],
    assumptions: &["real threads: a drop that took >= 2.5 s is set aside as inconclusive (internal 3 s timeout)"],
};
