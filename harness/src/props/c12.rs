//! C12 — middleware verdicts mean what they say.
//! Exhaustive enumeration of verdict assignments (4 verdicts x 3 hooks x m middlewares) for a
//! single action each, batched 64 per store, plus random scenarios with effect removal.
use super::common::*;
use crate::build::*;
use crate::log::*;
use crate::pipe::Kind;
use crate::profile::*;
use crate::scenario::*;

const VERDICTS: [Verdict; 4] = [Verdict::Continue, Verdict::Done, Verdict::Break, Verdict::Err];
const HOOKS: [Hook; 3] = [Hook::BeforeReduce, Hook::BeforeEffect, Hook::BeforeDispatch];

/// Tail shared by all C12 scenarios: a sentinel action whose notification proves that every
/// earlier action has been completely processed (effects handed to the pool), then stop.
fn finish(mut b: ScnB, s: StoreIx, th: usize, followup_gate: GateId, expected_followups: u32, late_sub: Option<SubId>) -> Scenario {
    let g = b.gate();
    if let Some(sub) = late_sub {
        // the store had no subscriber at all while the actions above went through it (every hook
        // must run all the same); the observer arrives just in time for the sentinel
        b.s.threads[th].push(Op::Subscribe { store: s, sub });
    }
    let sentinel = b.action(s, 0);
    b.act_mut(sentinel).signal = Some(g);
    b.s.threads[th].push(Op::Dispatch { act: sentinel, via: Via::Inherent });
    b.s.threads[th].push(Op::GateAwait { gate: g, entered: 1 });
    if expected_followups > 0 {
        b.s.threads[th].push(Op::GateAwait { gate: followup_gate, entered: expected_followups });
    }
    b.s.epilogue.push(Op::Stop { store: s, via_trait: false });
    b.s.epilogue.push(Op::GetState { store: s });
    b.finish()
}

fn base(m: usize, cap: usize, late: bool) -> (ScnB, StoreIx, Vec<CompId>, Vec<CompId>, usize, GateId, Option<SubId>) {
    let mut b = ScnB::new();
    let s = b.store("c12", cap, Pol::Block, Ctor::Builder);
    let reds = vec![b.reducer(s), b.reducer(s)];
    let mws: Vec<CompId> = (0..m).map(|_| b.middleware(s)).collect();
    let sub = b.sub(SubKind::Direct);
    if !late {
        b.s.prelude.push(Op::Subscribe { store: s, sub });
    }
    let th = b.thread();
    let fg = b.gate();
    (b, s, reds, mws, th, fg, if late { Some(sub) } else { None })
}

/// number of follow-up notifications the scenario can wait for (deterministic, single producer)
fn expected_followups(scn: &Scenario, s: StoreIx, acts: &[ActId]) -> u32 {
    let mut n = 0;
    for a in acts {
        let p = predict(scn, s, *a);
        for e in &p.surviving {
            match &e.kind {
                EffKind::Action(_) => n += 1,
                EffKind::Thunk(l) => n += l.len() as u32,
                _ => {}
            }
        }
    }
    n
}

/// batch `bi` of the assignments for m middlewares (64 assignments per store)
fn batch(m: usize, bi: u64) -> Scenario {
    let slots = 3 * m;
    let total: u64 = 4u64.pow(slots as u32);
    // every third batch runs on a store that has no subscriber while the assignments go through
    let (mut b, s, reds, mws, th, fg, late) = base(m, 4, bi % 3 == 2);
    let mut code = bi * 64;
    for _ in 0..64 {
        if code >= total {
            break;
        }
        let a = b.action(s, (code % 4) as u8);
        let mut c = code;
        for mw in &mws {
            for h in HOOKS {
                let v = VERDICTS[(c % 4) as usize];
                c /= 4;
                if v != Verdict::Continue {
                    b.act_mut(a).verdicts.push((*mw, h, v));
                }
            }
        }
        // every action returns one Task effect from reducer 0 so that effect handling under each
        // verdict combination is observable
        let e = b.eff(EffKind::Task, false, Stall::None);
        b.act_mut(a).effects.push((reds[0], e));
        b.s.threads[th].push(Op::Dispatch { act: a, via: VIAS[(code % 3) as usize] });
        code += 1;
    }
    finish(b, s, th, fg, 0, late)
}

pub fn enumerate(tier: Tier, sched: bool) -> EnumSpec {
    let max_m = if tier == Tier::Thorough { 3 } else { 2 };
    // (m, batch index) pairs
    let mut items: Vec<(usize, u64)> = vec![];
    for m in 1..=max_m {
        let batches = 4u64.pow(3 * m as u32).div_ceil(64);
        for bi in 0..batches {
            // schedule-controlled flavour: the run is deterministic (single producer); replay a
            // 5 % sample there for the R/S differential
            if !sched || bi % 20 == 0 {
                items.push((m, bi));
            }
        }
    }
    EnumSpec { n: items.len(), make: Box::new(move |i| batch(items[i].0, items[i].1)), exhaustive: !sched }
}

pub fn raw(tier: Tier) -> proptest::strategy::BoxedStrategy<Raw> {
    match tier {
        Tier::Quick => raw_strategy(1, 12),
        Tier::Thorough => raw_strategy(1, 24),
    }
}

fn verdict3(bits: u32) -> Verdict {
    match bits & 7 {
        0..=4 => Verdict::Continue,
        5 => Verdict::Done,
        6 => Verdict::Break,
        _ => Verdict::Err,
    }
}

pub fn build(raw: &Raw, _tier: Tier, _sched: bool) -> Scenario {
    let m = 1 + pick(knob(raw, 0), 3);
    let cap = CAPS[pick(knob(raw, 1), CAPS.len())];
    let (mut b, s, reds, mws, th, fg, late) = base(m, cap, knob(raw, 2) % 3 == 0);
    let mut acts = vec![];
    for r in raw.threads.first().map(|v| v.as_slice()).unwrap_or(&[]) {
        let o = ActOpts { reducers: &reds, middlewares: &mws, effects: true, followups: true, veto: false, keeps: true, panics: false };
        let a = scripted_action(&mut b, s, r, &o);
        let bits = (r.k as u32) | ((r.a as u32) << 16);
        let mut i = 0;
        for mw in &mws {
            for h in HOOKS {
                let v = verdict3(bits >> (3 * i));
                i += 1;
                if v != Verdict::Continue {
                    b.act_mut(a).verdicts.push((*mw, h, v));
                }
            }
        }
        // effect removal: middleware j removes the effect of reducer j%2 when its bit is set
        let effs: Vec<(CompId, EffId)> = b.s.actions[a as usize].effects.iter().map(|(c, e)| (*c, e.id)).collect();
        for (j, mw) in mws.iter().enumerate() {
            if (r.c >> (12 + j)) & 1 == 1 {
                if let Some((_, eid)) = effs.get(j % effs.len().max(1)) {
                    b.act_mut(a).removes.push((*mw, vec![*eid]));
                }
            }
        }
        // follow-ups signal the follow-up gate when notified
        let follow: Vec<ActId> = b.s.actions[a as usize]
            .effects
            .iter()
            .flat_map(|(_, e)| match &e.kind {
                EffKind::Action(f) => vec![*f],
                EffKind::Thunk(l) => l.clone(),
                _ => vec![],
            })
            .collect();
        for f in follow {
            b.act_mut(f).signal = Some(fg);
        }
        acts.push(a);
        b.s.threads[th].push(Op::Dispatch { act: a, via: via_of(r) });
    }
    // half of the cases: a second client keeps handing tasks to the store while the actions run
    // (the pool is busy with foreign work when the effects the middlewares left are handed over)
    if knob(raw, 3) % 2 == 0 {
        let t2 = b.thread();
        let n = 2 + pick(knob(raw, 4), 6);
        for i in 0..n {
            let e = b.eff(EffKind::Task, false, stall_of(knob(raw, 5).wrapping_add(i as u16 * 3)));
            b.s.threads[t2].push(Op::DispatchTask { store: s, eff: e });
            if i % 2 == 1 {
                b.s.threads[t2].push(Op::Stall(stall_of(knob(raw, 6).wrapping_add(i as u16))));
            }
        }
    }
    // follow-ups are counted through the subscriber's notifications: with a late subscriber
    // only the sentinel can be awaited (follow-ups may be notified before it arrives)
    let n = if late.is_some() { 0 } else { expected_followups(&b.s, s, &acts) };
    finish(b, s, th, fg, n, late)
}

pub fn check(scn: &Scenario, h: &History) -> Outcome {
    let mut out = Outcome::default();
    // a deadlock here means a follow-up or the sentinel never came through: effects left by the
    // middlewares were not run (or the pipeline stopped)
    let Some((d, p)) = prepare("C12", true, scn, h, &mut out) else { return out };
    for m in findings_of(&p, &[Kind::Verdict, Kind::Fold, Kind::Phase, Kind::Notify]) {
        out.viol(m);
    }
    // "for every action each middleware hook ...": the effect phase is entered for every action,
    // vetoed ones included (DoneAction from before_reduce keeps the action from the reducers, it
    // does not cancel the later phases): every build-time middleware's before_effect runs, up to
    // and including the first one that answers BreakChain there
    for (s, sd) in d.stores.iter().enumerate() {
        let chain = &scn.stores[s].middlewares;
        for run in &sd.runs {
            let sc = &scn.actions[run.act as usize];
            let mut expect = vec![];
            for m in chain {
                expect.push(*m);
                if sc.verdict(*m, Hook::BeforeEffect) == Verdict::Break {
                    break;
                }
            }
            let seen: Vec<CompId> = h.recs[run.first..=run.last].iter().filter_map(|r| match &r.ev {
                Ev::MwIn { comp, hook: Hook::BeforeEffect, act, .. } if *act == run.act => Some(*comp),
                _ => None,
            }).collect();
            if seen != expect {
                out.viol(format!(
                    "action {}{}: before_effect was called for middlewares {:?}, expected {:?} (every middleware, up to the first BreakChain of that phase)",
                    run.act, if chain.iter().any(|m| sc.verdict(*m, Hook::BeforeReduce) == Verdict::Done) { " (vetoed in before_reduce)" } else { "" }, seen, expect
                ));
            }
        }
    }
    let mut v = vec![];
    let mut lost = vec![];
    // (with the late-subscriber variant the follow-ups are not awaited before the stop)
    let awaited = scn.prelude.iter().any(|o| matches!(o, Op::Subscribe { .. }));
    if !awaited {
        out.class("no-subscriber-while-the-actions-run");
    }
    check_effects(&d, &p, awaited, &mut v, &mut lost);
    for m in v {
        out.viol(m);
    }
    for (e, a) in lost {
        out.viol(format!("effect {} of action {} was left in place by every middleware but was never executed", e, a));
    }
    for (s, sd) in d.stores.iter().enumerate() {
        if let Some(stop_ret) = sd.first_stop_ret {
            for o in d.ops.values() {
                if let (Some(Op::GetState { store }), Some(Res::State(st))) = (d.op(o.th, o.ix), &o.res) {
                    if *store == s && o.inv > stop_ret && *st != p.final_state[s] {
                        out.viol(format!("final state {:?} differs from the model's {:?} (a verdict changed or rolled back the state)", st, p.final_state[s]));
                    }
                }
            }
        }
        // every dispatched action was received (single producer, blocking policy)
        for disp in d.disps.iter().filter(|x| x.ok == Some(true)) {
            if !p.runs[s].iter().any(|r| r.act == disp.act) {
                out.viol(format!("action {} never reached the pipeline", disp.act));
            }
        }
        let mut nontriv = 0;
        for r in &p.runs[s] {
            let sc = &scn.actions[r.act as usize];
            if !sc.verdicts.is_empty() || !sc.removes.is_empty() {
                nontriv += 1;
            }
            for (_, hk, v) in &sc.verdicts {
                out.class(match (hk, v) {
                    (Hook::BeforeReduce, Verdict::Done) => "veto",
                    (Hook::BeforeDispatch, Verdict::Done) => "suppress-notify",
                    (_, Verdict::Break) => "break-chain",
                    (_, Verdict::Err) => "err-verdict",
                    _ => "other-verdict",
                });
            }
            if !sc.removes.is_empty() {
                out.class("effect-removed");
            }
        }
        if nontriv > 0 {
            out.nontrivial = true;
        }
    }
    out
}

pub static PROFILE: Profile = Profile {
    id: "C12",
    rule: "enumeration: every assignment of {Continue,Done,Break,Err} to the 3 hooks of m middlewares for one action (m=1,2 quick: 64+4096; m=3 thorough: 262144), 64 assignments per store so state carries over, every third store without any subscriber until the closing sentinel; plus proptest scenarios: 1-3 middlewares, up to 12/24 actions with independent verdicts per (action,hook), effect-removal masks, Dispatch/Keep answers, effects of every kind incl. follow-up actions (awaited before stop), a third of the stores without any subscriber until the closing sentinel, half of the cases with a second client handing tasks to the store meanwhile. Non-trivial = the scenario contains at least one action with a non-Continue verdict or an effect removal; distinct by scenario hash.",
    raw,
    build,
    check,
    budget: Budget { r_cases: (4000, 30000), s_cases: (600, 3000), s_scheds: (8, 32) },
    liveness: true,
    enumerate: Some(enumerate),
    extra: None,
    borrow: &[],
    assumptions: &[
        "whether a vetoed action still notifies subscribers (and runs its later hooks) is left unspecified and accepted both ways",
        "DoneAction from before_effect is not given a meaning by the property: effects left in the list are expected to run whatever the verdict",
    ],
};
