//! C09 — subscription lifecycle; C10 — channeled subscribers; C14 — state iterator.
use super::common::*;
use crate::build::*;
use crate::digest::*;
use crate::log::*;
use crate::pipe::{Kind, Tri};
use crate::profile::*;
use crate::scenario::*;
use std::collections::HashSet;

fn raw4(tier: Tier) -> proptest::strategy::BoxedStrategy<Raw> {
    match tier {
        Tier::Quick => raw_strategy(4, 10),
        Tier::Thorough => raw_strategy(4, 20),
    }
}
fn raw3(tier: Tier) -> proptest::strategy::BoxedStrategy<Raw> {
    match tier {
        Tier::Quick => raw_strategy(3, 10),
        Tier::Thorough => raw_strategy(3, 20),
    }
}

const SMALL_CAPS: [usize; 6] = [1, 1, 2, 2, 3, 4];

fn stream_of(h: &History, sub: SubId) -> Vec<(ActId, St, Pos)> {
    h.recs
        .iter()
        .enumerate()
        .filter_map(|(p, r)| match &r.ev {
            Ev::NotIn { sub: s, act, st } if *s == sub => Some((*act, *st, p)),
            _ => None,
        })
        .collect()
}

// =============================================================================== C09

pub fn c09_build(raw: &Raw, _tier: Tier, _sched: bool) -> Scenario {
    let mut b = ScnB::new();
    let cap = CAPS[pick(knob(raw, 0), CAPS.len())];
    // a third of the stores discard on a full queue (the lifecycle clauses do not depend on the policy)
    let s = b.store("c09", cap, POLS_MOSTLY_BLOCK[pick(knob(raw, 15), POLS_MOSTLY_BLOCK.len())], CTORS[pick(knob(raw, 1), 3)].clone());
    let nred = 1 + pick(knob(raw, 2), 2);
    let reds: Vec<CompId> = (0..nred).map(|_| b.reducer(s)).collect();
    let nsubs = 2 + pick(knob(raw, 3), 4);
    let mut subs = vec![];
    for i in 0..nsubs {
        let k = (knob(raw, 4) >> (3 * i)) % 8;
        let kind = match (i, k) {
            (0, _) => SubKind::Direct,
            (1, _) => SubKind::Channeled { cap: 1 + (knob(raw, 5) % 3) as usize, pol: Pol::Block, default_ctor: false },
            (_, 0..=2) => SubKind::Direct,
            (_, 3) => SubKind::Selector { fresh: true },
            (_, 4 | 5) => SubKind::Channeled { cap: 1 + (knob(raw, 5) % 4) as usize, pol: Pol::Block, default_ctor: k == 5 },
            (_, 6) => SubKind::Channeled { cap: 1 + (knob(raw, 6) % 2) as usize, pol: Pol::DropOldest, default_ctor: false },
            _ => SubKind::Channeled { cap: 1 + (knob(raw, 6) % 2) as usize, pol: Pol::DropLatest, default_ctor: false },
        };
        let id = b.sub(kind);
        b.sub_mut(id).stall = stall_of(knob(raw, 7).wrapping_add(i as u16 * 7));
        subs.push(id);
    }
    // some subscribers are registered in the prelude, the others by client threads
    let pre = pick(knob(raw, 8), nsubs + 1);
    let mut registered: HashSet<SubId> = HashSet::new();
    for sub in subs.iter().take(pre) {
        b.s.prelude.push(Op::Subscribe { store: s, sub: *sub });
        registered.insert(*sub);
    }
    let racing_stop = knob(raw, 9) % 3 == 0;
    let nthreads = raw.threads.len();
    let mut acts: Vec<ActId> = vec![];
    for (t, ops) in raw.threads.iter().enumerate() {
        let th = b.thread();
        for r in ops {
            let op = match r.k % 16 {
                0..=7 => {
                    let o = ActOpts { reducers: &reds, middlewares: &[], effects: false, followups: false, veto: false, keeps: (r.k >> 8) % 4 == 0, panics: false };
                    let a = scripted_action(&mut b, s, r, &o);
                    acts.push(a);
                    Op::Dispatch { act: a, via: via_of(r) }
                }
                8 | 9 => {
                    let cand: Vec<SubId> = subs.iter().copied().filter(|x| !registered.contains(x)).collect();
                    if cand.is_empty() {
                        Op::Stall(stall_of(r.a))
                    } else {
                        let sub = cand[pick(r.a, cand.len())];
                        registered.insert(sub);
                        Op::Subscribe { store: s, sub }
                    }
                }
                10..=13 => Op::Unsubscribe { store: s, sub: subs[pick(r.a, subs.len())] },
                // the Subscription handle is dropped without unsubscribe(): nothing ends
                14 if (r.k >> 4) % 2 == 0 => Op::ForgetSubscription { store: s, sub: subs[pick(r.a, subs.len())] },
                _ => Op::Stall(stall_of(r.a)),
            };
            b.s.threads[th].push(op);
        }
        if racing_stop && t + 1 == nthreads {
            let at = pick(knob(raw, 10), b.s.threads[th].len() + 1);
            b.s.threads[th].insert(at, Op::Stop { store: s, via_trait: false });
        }
    }
    // a third of the cases: a direct / selector subscriber changes the subscriber list from inside
    // its own callback (unsubscribes itself or somebody else, registers a newcomer)
    if knob(raw, 11) % 3 == 0 && !acts.is_empty() {
        let hosts: Vec<SubId> = subs.iter().copied().filter(|x| matches!(b.s.subs.iter().find(|y| y.id == *x).unwrap().kind, SubKind::Direct | SubKind::Selector { .. })).collect();
        let n = 1 + (knob(raw, 12) % 2) as usize;
        for j in 0..n {
            let kn = knob(raw, 13 + j);
            let host = hosts[pick(kn, hosts.len())];
            let trigger = acts[pick(kn.rotate_left(5), acts.len())];
            let op = match (kn >> 3) % 4 {
                0 => Op::Unsubscribe { store: s, sub: host },
                1 | 2 => Op::Unsubscribe { store: s, sub: subs[pick(kn.rotate_left(9), subs.len())] },
                _ => {
                    let cand: Vec<SubId> = subs.iter().copied().filter(|x| !registered.contains(x)).collect();
                    if cand.is_empty() {
                        Op::Unsubscribe { store: s, sub: host }
                    } else {
                        let sub = cand[pick(kn.rotate_left(9), cand.len())];
                        registered.insert(sub);
                        Op::Subscribe { store: s, sub }
                    }
                }
            };
            b.sub_mut(host).on_notify_ops.push((trigger, vec![op]));
        }
    }
    b.s.epilogue.push(Op::Stop { store: s, via_trait: false });
    b.finish()
}

pub fn c09_check(scn: &Scenario, h: &History) -> Outcome {
    let mut out = Outcome::default();
    let Some((d, p)) = prepare("C09", true, scn, h, &mut out) else { return out };
    note_others(&p, &[Kind::Notify, Kind::Late], &mut out);
    let s = 0;
    let sd = &d.stores[s];
    let runs = &p.runs[s];
    // (1)/(5): required-but-missing notifications of direct/selector subscribers
    for f in p.findings.iter().filter(|f| f.kind == Kind::Notify && f.msg.contains("was not notified")) {
        out.viol(format!("[Notify] @{}: {}", f.pos, f.msg));
    }
    // (2) silent after unsubscribe() returned — direct/selector: typed Late findings; F5 signature
    classify_late(&d, &p, s, true, &mut out);
    let stop_ret = sd.first_stop_ret.unwrap_or(usize::MAX);
    let shutdown_inv = sd.first_shutdown_inv.unwrap_or(usize::MAX);
    let mut has_direct = false;
    let mut has_chan = false;
    let mut unsub_between = false;
    for (sub, iv) in &sd.subs {
        let kind = d.sub_kind(*sub);
        let stream = stream_of(h, *sub);
        let unsubs: Vec<Pos> = h.recs.iter().enumerate().filter_map(|(p, r)| match &r.ev {
            Ev::Unsub { sub: x } if x == sub => Some(p),
            _ => None,
        }).collect();
        match kind {
            SubKind::Direct => has_direct = true,
            SubKind::Channeled { .. } => has_chan = true,
            _ => {}
        }
        if let SubKind::Channeled { pol, .. } = kind {
            // (2) channeled: nothing after unsubscribe() returned
            if let Some(ur) = iv.unsub_ret {
                for (a, _, pos) in &stream {
                    if *pos > ur {
                        out.viol(format!("channeled subscriber {} was called for action {} at @{} after its unsubscribe() had returned at @{}", sub, a, pos, ur));
                    }
                }
            }
            // (1) channeled with the blocking policy: every notifying action dispatched after the
            // registration returned is delivered (unless unsubscribed meanwhile)
            if pol == Pol::Block && iv.unsub_inv.is_none() {
                if let Some(ar) = iv.add_ret {
                    for r in runs.iter().filter(|r| r.notify == Tri::Yes) {
                        let lb = d.disp_of(r.act).map(|x| x.inv).unwrap_or(0);
                        if ar < lb && ar < shutdown_inv && !stream.iter().any(|(a, _, _)| *a == r.act) {
                            out.viol(format!("channeled subscriber {} (registered before action {} was dispatched, never unsubscribed) was not notified of it", sub, r.act));
                        }
                    }
                }
            }
            let mut seen = HashSet::new();
            for (a, _, _) in &stream {
                if !seen.insert(*a) {
                    out.viol(format!("channeled subscriber {} was notified twice of action {}", sub, a));
                }
            }
        }
        // (3)/(4) on_unsubscribe exactly once (observable for direct and channeled subscribers)
        if matches!(kind, SubKind::Direct | SubKind::Channeled { .. }) && !scn.sub(*sub).fn_wrapped {
            // ... and never before anybody asked for it: neither an unsubscribe() of this
            // subscriber nor a shutdown had been invoked
            if let Some(u) = unsubs.first() {
                let earliest_cause = iv.unsub_inv.unwrap_or(usize::MAX).min(shutdown_inv).min(d.cleanup_in.unwrap_or(usize::MAX));
                if *u < earliest_cause {
                    out.viol(format!(
                        "subscriber {} ({:?}) received on_unsubscribe at @{} although no unsubscribe() of it and no shutdown of the store had been invoked yet (earliest at @{})",
                        sub, kind, u, if earliest_cause == usize::MAX { "never".to_string() } else { earliest_cause.to_string() }
                    ));
                }
            }
            if unsubs.len() > 1 {
                out.viol(format!("subscriber {} received on_unsubscribe {} times", sub, unsubs.len()));
            }
            if let Some(ar) = iv.add_ret {
                if ar < shutdown_inv {
                    let deadline = iv.unsub_ret.unwrap_or(usize::MAX).min(stop_ret);
                    match unsubs.first() {
                        None => out.viol(format!("subscriber {} ({:?}) was registered before the store was shut down but never received on_unsubscribe", sub, kind)),
                        Some(u) => {
                            if *u > deadline {
                                out.viol(format!("subscriber {} received on_unsubscribe at @{}, after unsubscribe()/stop() had returned at @{}", sub, u, deadline));
                            }
                        }
                    }
                } else if stop_ret != usize::MAX {
                    // registered while the shutdown was under way, or after it: "every registered
                    // subscriber" is still released exactly once - by the time both stop() and its
                    // own registration (or an earlier unsubscribe()) have returned
                    out.class("registered-during-or-after-shutdown");
                    let deadline = stop_ret.max(ar).min(iv.unsub_ret.unwrap_or(usize::MAX).max(ar));
                    if !unsubs.iter().any(|u| *u <= deadline) {
                        out.viol(format!(
                            "subscriber {} ({:?}) was registered at @{} while / after the store shut down (stop() returned at @{}) and had not received on_unsubscribe when both had returned",
                            sub, kind, ar, stop_ret
                        ));
                    }
                }
            }
        }
        // non-triviality: an effective unsubscribe between (or overlapping) two notifying runs
        if let (Some(ui), Some(ur)) = (iv.unsub_inv, iv.unsub_ret) {
            let before = runs.iter().any(|r| r.notify != Tri::No && r.last < ui && iv.add_ret.map(|x| x < r.first).unwrap_or(false));
            let after = runs.iter().any(|r| r.notify != Tri::No && r.first > ur);
            let overlap = runs.iter().any(|r| r.first < ur && r.last > ui);
            if (before && after) || overlap {
                unsub_between = true;
            }
        }
    }
    if unsub_between {
        out.class("unsubscribe-between-notifications");
    }
    if h.recs.iter().any(|r| matches!(r.ev, Ev::Inv { th, .. } if th >= 3000)) {
        out.class("callback-changes-subscriber-list");
    }
    if has_chan && has_direct {
        out.class("direct-and-channeled");
    }
    if sd.subs.iter().any(|(x, _)| matches!(d.sub_kind(*x), SubKind::Selector { .. })) {
        out.class("selector");
    }
    if d.ops.values().any(|o| matches!(d.op(o.th, o.ix), Some(Op::Stop { .. })) && o.th != 0) {
        out.class("racing-stop");
    }
    if unsub_between && has_chan && has_direct {
        out.nontrivial = true;
    }
    out
}

pub static C09: Profile = Profile {
    id: "C09",
    rule: "proptest scenarios: 1-4 client threads interleaving subscribe (direct / selector / channeled with every policy and the default constructor), unsubscribe (any thread, sometimes repeated; in a third of the cases also from inside a direct / selector subscriber's callback: itself, another subscriber, or registering a newcomer), dispatch and an optional racing stop; 2-5 subscribers of mixed kinds, some registered in the prelude. Oracle O-LIFE on the event log: required notifications, nothing after Ret(unsubscribe), exactly one on_unsubscribe before the unsubscribe()/stop() that released the subscriber returned, repeated unsubscribe adds nothing. Non-trivial = an effective unsubscribe lies between two notifying pipeline actions or overlaps one, with >= 1 channeled and >= 1 direct subscriber registered; distinct by scenario hash.",
    raw: raw4,
    build: c09_build,
    check: c09_check,
    budget: Budget { r_cases: (3000, 20000), s_cases: (6000, 20000), s_scheds: (16, 64) },
    liveness: true,
    enumerate: None,
    extra: None,
    borrow: &["C01", "C02", "C03", "C04", "C05", "C06", "C07", "C08", "C10", "C11", "C12", "C13", "C14", "C15", "C18"],
    assumptions: &[
        "on_unsubscribe is observable for direct and channeled subscribers; for selector subscriptions only 'notified while registered' and 'silent afterwards' are",
        "a subscriber registered while a shutdown is already under way may legitimately get no on_unsubscribe",
    ],
};

// =============================================================================== C10

/// The triple D1, C, D2 is attached after `close()`, while the reducer (held at a primer) still
/// has a backlog to work off: a store that is closed but not yet drained still notifies, and C
/// must be given exactly what the direct subscribers attached at the same moment are given.
fn c10_attached_after_close(raw: &Raw) -> Scenario {
    let mut b = ScnB::new();
    let s = b.store("c10", 4, Pol::Block, CTORS[pick(knob(raw, 1), 3)].clone());
    let r0 = b.reducer(s);
    let rg = b.gate();
    b.comp_mut(r0).gate = Some(rg);
    let cpol = POLS[pick(knob(raw, 3), 3)];
    let d1 = b.sub(SubKind::Direct);
    let c = if cpol == Pol::Block && knob(raw, 15) % 3 == 0 {
        b.sub(SubKind::Channeled { cap: 16, pol: Pol::Block, default_ctor: true })
    } else {
        b.sub(SubKind::Channeled { cap: SMALL_CAPS[pick(knob(raw, 2), SMALL_CAPS.len())], pol: cpol, default_ctor: false })
    };
    b.sub_mut(c).stall = stall_of(knob(raw, 5));
    b.sub_mut(c).via_trait = (knob(raw, 13) >> 3) % 2 == 0;
    let d2 = b.sub(SubKind::Direct);
    let primer = b.action(s, 0);
    b.s.prelude.push(Op::Dispatch { act: primer, via: Via::Inherent });
    b.s.prelude.push(Op::GateAwait { gate: rg, entered: 1 });
    for i in 0..1 + pick(knob(raw, 4), 3) {
        let a = b.action(s, (i % 4) as u8);
        if (knob(raw, 6) >> i) & 1 == 1 {
            b.act_mut(a).keep = vec![r0];
        }
        b.s.prelude.push(Op::Dispatch { act: a, via: VIAS[(knob(raw, 7) as usize + i) % 3] });
    }
    b.s.prelude.push(Op::Close { store: s });
    for sub in [d1, c, d2] {
        b.s.prelude.push(Op::Subscribe { store: s, sub });
    }
    let t = b.thread();
    b.s.threads[t].push(Op::Stall(stall_of(knob(raw, 8))));
    b.s.threads[t].push(Op::GateOpen { gate: rg });
    if knob(raw, 9) % 2 == 0 {
        b.s.threads[t].push(Op::Stop { store: s, via_trait: false });
    }
    b.s.epilogue.push(Op::Stop { store: s, via_trait: false });
    b.finish()
}

pub fn c10_build(raw: &Raw, _tier: Tier, _sched: bool) -> Scenario {
    if (knob(raw, 0) >> 3) % 6 == 0 {
        return c10_attached_after_close(raw);
    }
    let mut b = ScnB::new();
    let cap = SMALL_CAPS[pick(knob(raw, 0), SMALL_CAPS.len())];
    // mostly a blocking store (so that every accepted action is notified); sometimes a drop policy:
    // D1's stream is still the complete notification sequence of what the reducer took
    let spol = [Pol::Block, Pol::Block, Pol::Block, Pol::DropLatest, Pol::DropOldest][(knob(raw, 13) % 5) as usize];
    let s = b.store("c10", cap, spol, CTORS[pick(knob(raw, 1), 3)].clone());
    let reds = vec![b.reducer(s)];
    let ccap = SMALL_CAPS[pick(knob(raw, 2), SMALL_CAPS.len())];
    let cpol = POLS[pick(knob(raw, 3), 3)];
    let d1 = b.sub(SubKind::Direct);
    // the default constructor subscribed() = capacity 16, blocking
    let use_default = cpol == Pol::Block && knob(raw, 15) % 4 == 0;
    let (ccap, c) = if use_default {
        (16, b.sub(SubKind::Channeled { cap: 16, pol: Pol::Block, default_ctor: true }))
    } else {
        (ccap, b.sub(SubKind::Channeled { cap: ccap, pol: cpol, default_ctor: false }))
    };
    let _ = ccap;
    // both doors: the inherent subscribed()/subscribed_with() and the ones of the `Store` trait
    b.sub_mut(c).via_trait = (knob(raw, 13) >> 3) % 2 == 0;
    let d2 = b.sub(SubKind::Direct);
    let gated = knob(raw, 4) % 2 == 0;
    let g = if gated {
        let g = b.gate();
        b.sub_mut(c).gate = Some(g);
        Some(g)
    } else {
        b.sub_mut(c).stall = stall_of(knob(raw, 5));
        None
    };
    for sub in [d1, c, d2] {
        b.s.prelude.push(Op::Subscribe { store: s, sub });
    }
    // optionally a second channeled subscriber (thread identity must differ)
    if knob(raw, 6) % 3 == 0 {
        let c2 = b.sub(SubKind::Channeled { cap: 2, pol: Pol::Block, default_ctor: false });
        b.s.prelude.push(Op::Subscribe { store: s, sub: c2 });
    }
    // "held" mode (drop policies only): C gets no token at all until every producer has finished -
    // a stalled subscriber must never stall reducing, so the producers finish on their own; if the
    // reducer waited for C they would block on the full queue and nobody would ever open the gate
    let held = gated && cpol != Pol::Block && knob(raw, 14) % 2 == 0;
    let done = if held { Some(b.gate()) } else { None };
    let mut nprod = 0;
    for ops in raw.threads.iter() {
        let th = b.thread();
        nprod += 1;
        for r in ops {
            if r.k % 8 == 7 {
                b.s.threads[th].push(Op::Stall(stall_of(r.a)));
                continue;
            }
            let o = ActOpts { reducers: &reds, middlewares: &[], effects: false, followups: false, veto: false, keeps: (r.k >> 8) % 5 == 0, panics: false };
            let a = scripted_action(&mut b, s, r, &o);
            b.s.threads[th].push(Op::Dispatch { act: a, via: via_of(r) });
        }
        if let Some(dg) = done {
            b.s.threads[th].push(Op::GateSignal { gate: dg });
        }
    }
    // terminator: unsubscribe(C) at a generated point (or leave it to the final stop)
    let term = if held { 0 } else { knob(raw, 7) % 4 };
    // a third of the cases: close() comes first, so the stop() that has to wait for C's backlog
    // is not the call that closed the dispatch channel
    let close_first = knob(raw, 9) % 3 == 0;
    if term != 0 {
        let t = b.thread();
        let lead = pick(knob(raw, 8), 5);
        for i in 0..lead {
            b.s.threads[t].push(Op::Stall(stall_of(knob(raw, 9).wrapping_add(i as u16 * 3))));
        }
        if term == 1 && (knob(raw, 8) >> 4) % 2 == 0 {
            // unsubscribe(C) issued by D1 from inside its callback, i.e. in the middle of a
            // notification round in which C still comes later: C must neither be called in the
            // reducer context nor after that unsubscribe() has returned
            let acts: Vec<ActId> = b.s.threads.iter().flatten().filter_map(|o| match o { Op::Dispatch { act, .. } => Some(*act), _ => None }).collect();
            if !acts.is_empty() && !gated {
                let trigger = acts[pick(knob(raw, 9), acts.len())];
                b.sub_mut(d1).on_notify_ops.push((trigger, vec![Op::Unsubscribe { store: s, sub: c }]));
            } else {
                b.s.threads[t].push(Op::Unsubscribe { store: s, sub: c });
            }
            b.s.threads[t].push(Op::Stall(stall_of(knob(raw, 9))));
        } else if term == 1 || term == 3 {
            b.s.threads[t].push(Op::Unsubscribe { store: s, sub: c });
            b.s.threads[t].push(Op::Unsubscribe { store: s, sub: c });
        } else {
            if close_first {
                b.s.threads[t].push(Op::Close { store: s });
            }
            b.s.threads[t].push(Op::Stop { store: s, via_trait: false });
        }
        if term == 3 {
            // unsubscribe(C) on one thread racing stop() on another: both are barriers for C
            let t2 = b.thread();
            let lead = pick(knob(raw, 15), 5);
            for i in 0..lead {
                b.s.threads[t2].push(Op::Stall(stall_of(knob(raw, 14).wrapping_add(i as u16 * 5))));
            }
            if close_first {
                b.s.threads[t2].push(Op::Close { store: s });
            }
            b.s.threads[t2].push(Op::Stop { store: s, via_trait: false });
        }
    }
    // a third of the cases: one more channeled subscriber is attached by a client thread at a
    // generated moment - possibly while a stop() is under way on another thread
    if knob(raw, 6) % 3 == 1 {
        let lt = b.thread();
        for i in 0..pick(knob(raw, 10), 5) {
            b.s.threads[lt].push(Op::Stall(stall_of(knob(raw, 11).wrapping_add(i as u16 * 7))));
        }
        let c3 = b.sub(SubKind::Channeled { cap: 1 + (knob(raw, 12) % 3) as usize, pol: POLS[pick(knob(raw, 12).rotate_left(5), 3)], default_ctor: knob(raw, 12) % 7 == 0 });
        b.s.threads[lt].push(Op::Subscribe { store: s, sub: c3 });
    }
    if let (Some(g), Some(dg)) = (g, done) {
        let ct = b.thread();
        b.s.threads[ct].push(Op::GateAwait { gate: dg, entered: nprod });
        b.s.threads[ct].push(Op::GateOpen { gate: g });
    } else if let Some(g) = g {
        let ct = b.thread();
        let steps = pick(knob(raw, 10), 6);
        for i in 0..steps {
            b.s.threads[ct].push(Op::Stall(stall_of(knob(raw, 11).wrapping_add(i as u16 * 5))));
            b.s.threads[ct].push(Op::GateRelease { gate: g, n: 1 + ((knob(raw, 12) >> (2 * i)) % 3) as u32 });
        }
        b.s.threads[ct].push(Op::Stall(stall_of(knob(raw, 13))));
        b.s.threads[ct].push(Op::GateOpen { gate: g });
    }
    if close_first {
        b.s.epilogue.push(Op::Close { store: s });
    }
    b.s.epilogue.push(Op::Stop { store: s, via_trait: false });
    b.finish()
}

pub fn c10_check(scn: &Scenario, h: &History) -> Outcome {
    let mut out = Outcome::default();
    let Some((d, p)) = prepare("C10", true, scn, h, &mut out) else { return out };
    note_others(&p, &[], &mut out);
    let s = 0;
    let sd = &d.stores[s];
    let runs = &p.runs[s];
    let (d1, c, d2) = (0u32, 1u32, 2u32);
    let SubKind::Channeled { cap: ccap, pol: cpol, .. } = d.sub_kind(c) else { return out };
    if scn.prelude.iter().any(|o| matches!(o, Op::Close { .. })) {
        out.class("attached-after-close-with-a-backlog");
    }
    let iv = &sd.subs.iter().find(|(x, _)| *x == c).unwrap().1;
    let s1 = stream_of(h, d1);
    let sc = stream_of(h, c);
    let s2 = stream_of(h, d2);
    // a stalled subscriber never stalls reducing: every accepted action is reduced
    if scn.stores[s].policy == Pol::Block {
        for x in d.disps.iter().filter(|x| x.ok == Some(true)) {
            if !runs.iter().any(|r| r.act == x.act) {
                out.viol(format!("action {} was accepted but never reduced", x.act));
            }
        }
    } else {
        out.class("store-drop-policy");
    }
    // own thread
    let client_tids: HashSet<Tid> = h.recs.iter().filter(|r| matches!(r.ev, Ev::Inv { .. })).map(|r| r.tid).collect();
    let mut ctids: HashSet<Tid> = HashSet::new();
    for (pos, r) in h.recs.iter().enumerate() {
        let mine = matches!(&r.ev, Ev::NotIn { sub, .. } | Ev::NotOut { sub, .. } if *sub == c);
        if !mine {
            continue;
        }
        ctids.insert(r.tid);
        if in_reducer_context(&d, s, pos, r.tid) {
            out.viol(format!("channeled subscriber {} was called in the reducer context (thread {}) at @{}", c, r.tid, pos));
        }
        if client_tids.contains(&r.tid) {
            out.viol(format!("channeled subscriber {} was called on client thread {} at @{}", c, r.tid, pos));
        }
    }
    if ctids.len() > 1 {
        out.viol(format!("channeled subscriber {} was called on several threads {:?}", c, ctids));
    }
    for (other, _) in sd.subs.iter().filter(|(x, _)| *x != c && matches!(d.sub_kind(*x), SubKind::Channeled { .. })) {
        for r in h.recs.iter() {
            if matches!(&r.ev, Ev::NotIn { sub, .. } if sub == other) && ctids.contains(&r.tid) {
                out.viol(format!("channeled subscribers {} and {} share delivery thread {}", c, other, r.tid));
                break;
            }
        }
    }
    // stream relations
    let acts1: Vec<(ActId, St)> = s1.iter().map(|x| (x.0, x.1)).collect();
    let actsc: Vec<(ActId, St)> = sc.iter().map(|x| (x.0, x.1)).collect();
    let word = if iv.unsub_ret.is_some() { "unsubscribe()" } else { "stop()" };
    // both its own unsubscribe() and the store's stop() are barriers for C (whichever returned)
    for (barrier, what) in [(iv.unsub_ret, "unsubscribe()"), (sd.first_stop_ret, "stop()")] {
        let Some(barrier) = barrier else { continue };
        for (a, _, pos) in &sc {
            if *pos > barrier {
                out.viol(format!("channeled subscriber {} was called for action {} at @{} after {} had returned at @{}", c, a, pos, what, barrier));
            }
        }
        for (pos, r) in h.recs.iter().enumerate() {
            if matches!(&r.ev, Ev::NotOut { sub, .. } if *sub == c) && pos > barrier {
                out.viol(format!("channeled subscriber {} was still inside on_notify at @{} after {} had returned at @{}", c, pos, what, barrier));
            }
        }
    }
    // the same two barriers hold for every other channeled subscriber, whenever it was attached
    for (other, oiv) in sd.subs.iter().filter(|(x, _)| *x != c && matches!(d.sub_kind(*x), SubKind::Channeled { .. })) {
        for (barrier, what) in [(oiv.unsub_ret, "unsubscribe()"), (sd.first_stop_ret, "stop()")] {
            let Some(barrier) = barrier else { continue };
            // (a subscription made after the stop returned is released at once and never called)
            if let Some((pos, _)) = h.recs.iter().enumerate().find(|(pos, r)| *pos > barrier && matches!(&r.ev, Ev::NotIn { sub, .. } | Ev::NotOut { sub, .. } if sub == other)) {
                out.viol(format!("channeled subscriber {} was called at @{} after {} had returned at @{}", other, pos, what, barrier));
            }
        }
        if oiv.add_inv.map(|x| x > 0).unwrap_or(false) {
            out.class("channeled-subscriber-attached-mid-run");
        }
    }
    // in-order subsequence of the direct stream (all policies), with identical (state, action) pairs
    let mut j = 0;
    for x in &actsc {
        while j < acts1.len() && acts1[j] != *x {
            j += 1;
        }
        if j == acts1.len() {
            out.viol(format!("channeled subscriber {} received {:?}, which is not an in-order element of the direct subscriber's stream {:?}", c, x, acts1.iter().map(|y| y.0).collect::<Vec<_>>()));
            break;
        }
        j += 1;
    }
    // everything D2 had been told about before unsubscribe(C) was invoked (or everything, when the
    // store is stopped) had already been handed to C's forwarding wrapper
    let cut = iv.unsub_inv.unwrap_or(usize::MAX);
    let must: Vec<ActId> = s2.iter().filter(|x| x.2 < cut).map(|x| x.0).filter(|a| {
        // C registered before the action was dispatched (it is: prelude), and the action notifies
        acts1.iter().any(|y| y.0 == *a)
    }).collect();
    match cpol {
        Pol::Block => {
            for a in &must {
                if !actsc.iter().any(|y| y.0 == *a) {
                    out.viol(format!("blocking channeled subscriber {}: action {} had been queued for it before {} was called but was not delivered before it returned (not flushed)", c, a, word));
                }
            }
            // same sequence as a direct subscriber, truncated at the unsubscribe
            let n = actsc.len();
            if n > acts1.len() || actsc[..] != acts1[..n] {
                out.viol(format!("blocking channeled subscriber {} received {:?}, a direct subscriber received {:?}: not a prefix", c, actsc.iter().map(|y| y.0).collect::<Vec<_>>(), acts1.iter().map(|y| y.0).collect::<Vec<_>>()));
            }
            if iv.unsub_inv.is_none() && n != acts1.len() {
                out.viol(format!("blocking channeled subscriber {} (never unsubscribed) received {} notifications, the direct subscriber {}", c, n, acts1.len()));
            }
        }
        Pol::DropOldest => {
            // the newest notification handed over is always delivered
            if let Some(last_must) = must.last() {
                let need = acts1.iter().position(|y| y.0 == *last_must).unwrap();
                let got = actsc.last().and_then(|y| acts1.iter().position(|z| z == y));
                match got {
                    Some(gp) if gp >= need => {}
                    _ => out.viol(format!("DropOldest channeled subscriber {}: the newest notification queued before {} (action {}) or a newer one must be its last delivery, got {:?}", c, word, last_must, actsc.last().map(|y| y.0))),
                }
            }
            if iv.unsub_inv.is_none() && acts1.last().map(|y| y.0) != actsc.last().map(|y| y.0) {
                out.viol(format!("DropOldest channeled subscriber {} (never unsubscribed): last delivery is {:?}, the newest notification is {:?}", c, actsc.last().map(|y| y.0), acts1.last().map(|y| y.0)));
            }
        }
        Pol::DropLatest => {}
    }
    // non-triviality: C was held while >= cap+1 notifications were produced and the terminator came
    // while something was still queued for it
    let mut max_lag = 0usize;
    for (i, x) in s1.iter().enumerate() {
        let delivered = sc.iter().filter(|y| y.2 < x.2).count();
        max_lag = max_lag.max(i + 1 - delivered.min(i + 1));
    }
    let term_pos = iv.unsub_inv.or(sd.first_stop_inv).unwrap_or(usize::MAX);
    let queued_at_term = {
        let handed = s2.iter().filter(|x| x.2 < term_pos).count();
        let done = h.recs[..term_pos.min(h.recs.len())].iter().filter(|r| matches!(&r.ev, Ev::NotOut { sub, .. } if *sub == c)).count();
        handed > done
    };
    if max_lag >= ccap + 1 {
        out.class("subscriber-lagged-beyond-capacity");
    }
    if queued_at_term {
        out.class("items-queued-at-unsubscribe-or-stop");
    }
    out.class(match cpol {
        Pol::Block => "chan-block",
        Pol::DropOldest => "chan-drop-oldest",
        Pol::DropLatest => "chan-drop-latest",
    });
    if iv.unsub_inv.is_some() {
        out.class("unsubscribed");
        if d.ops.values().any(|o| o.th != 0 && matches!(d.op(o.th, o.ix), Some(Op::Stop { .. }))) {
            out.class("unsubscribe-racing-stop");
        }
    }
    if scn.threads.iter().flatten().any(|o| matches!(o, Op::GateSignal { .. })) {
        out.class("held-until-producers-finished");
    }
    if max_lag >= ccap + 1 && queued_at_term {
        out.nontrivial = true;
    }
    out
}

pub static C10: Profile = Profile {
    id: "C10",
    rule: "proptest scenarios (C attached through the inherent methods or through the `Store` trait): a triple registered back-to-back in the prelude (in a sixth of the cases after close(), while the held reducer still has a backlog) - direct D1, channeled C (capacity 1-4, each policy), direct D2 - optionally a second channeled subscriber; 1-3 producers; C's callback is gated (tokens released by a controller thread; under drop policies half of the gated cases hold C without any token until every producer has finished, which deadlocks if reducing waits for C) or stalls; unsubscribe(C) (twice), stop() (in a third of the cases preceded by close()), or both racing on two threads, at a generated point. Oracle O-CHAN: C's calls all on one thread that is not the reducer context, a client thread or another channeled subscriber's thread; C's (state,action) stream vs D1's (equal prefix under BlockOnFull, in-order subsequence under drop policies, newest delivered under DropOldest); everything D2 saw before Inv(unsubscribe C) delivered before its Ret (flush); nothing after; all accepted actions reduced. Non-trivial = C lagged by >= capacity+1 notifications at some point AND the unsubscribe/stop came while an item was still queued for C; distinct by scenario hash.",
    raw: raw3,
    build: c10_build,
    check: c10_check,
    budget: Budget { r_cases: (3000, 20000), s_cases: (4000, 10000), s_scheds: (16, 64) },
    liveness: true,
    enumerate: None,
    extra: None,
    borrow: &[],
    assumptions: &["the reference stream is that of a direct subscriber registered just before the channeled one (with a drop-policy store it contains what the reducer actually took)"],
};

// =============================================================================== C14

/// An iterator obtained from a store that has already shut down - without ever having had a
/// subscriber: it has nothing to yield and must say so (None, again and again) instead of waiting.
fn c14_late_iterator(raw: &Raw) -> Scenario {
    let mut b = ScnB::new();
    let s = b.store("c14", CAPS[pick(knob(raw, 0), CAPS.len())], POLS_MOSTLY_BLOCK[pick(knob(raw, 12), POLS_MOSTLY_BLOCK.len())], CTORS[pick(knob(raw, 1), 3)].clone());
    let reds = vec![b.reducer(s)];
    let th = b.thread();
    for r in raw.threads.first().map(|v| v.as_slice()).unwrap_or(&[]).iter().take(4) {
        let o = ActOpts { reducers: &reds, middlewares: &[], effects: false, followups: false, veto: false, keeps: (r.k >> 8) % 4 == 0, panics: false };
        let a = scripted_action(&mut b, s, r, &o);
        b.s.threads[th].push(Op::Dispatch { act: a, via: via_of(r) });
    }
    // close, or stop, or both; then - on the same or another thread - the late iterator
    match knob(raw, 2) % 3 {
        0 => b.s.threads[th].push(Op::Close { store: s }),
        1 => b.s.threads[th].push(Op::Stop { store: s, via_trait: false }),
        _ => {
            b.s.threads[th].push(Op::Close { store: s });
            b.s.threads[th].push(Op::Stop { store: s, via_trait: false });
        }
    }
    let ready = b.gate();
    b.s.threads[th].push(Op::GateSignal { gate: ready });
    let ct = if knob(raw, 3) % 2 == 0 { th } else { b.thread() };
    b.s.threads[ct].push(Op::GateAwait { gate: ready, entered: 1 });
    for i in 0..pick(knob(raw, 4), 3) {
        b.s.threads[ct].push(Op::Stall(stall_of(knob(raw, 5).wrapping_add(i as u16))));
    }
    let it = b.iter_id();
    b.s.threads[ct].push(Op::Iter { store: s, it, consume: Consume::UntilNone, ready: None });
    b.s.epilogue.push(Op::Stop { store: s, via_trait: false });
    b.finish()
}

/// A consumer that stays away from `next()` for longer than `stop()`'s internal 3 s wait while
/// pairs are outstanding (the iterator's hand-over channel holds one pair, the reducer thread is
/// blocked on the next): when it comes back it must still be handed every remaining pair, then
/// None. Real threads only - the schedule-controlled runtime has no time-outs. The verdict is about
/// what the iterator yields, never about how long anything took.
fn c14_paused_consumer(i: usize) -> Scenario {
    let mut b = ScnB::new();
    let n = 4 + i % 5;
    let take = 1 + (i / 5) % 2;
    let ms = [3600u16, 4500][(i / 10) % 2];
    let s = b.store("c14", 16, Pol::Block, CTORS[i % 3].clone());
    let reds = vec![b.reducer(s)];
    let d = b.sub(SubKind::Direct);
    b.s.prelude.push(Op::Subscribe { store: s, sub: d });
    let ready = b.gate();
    let paused = b.gate();
    let ct = b.thread();
    let it = b.iter_id();
    b.s.threads[ct].push(Op::IterOpen { store: s, it, ready: Some(ready) });
    b.s.threads[ct].push(Op::IterTake { it, k: take as u32 });
    b.s.threads[ct].push(Op::GateSignal { gate: paused });
    b.s.threads[ct].push(Op::Stall(Stall::Ms(ms)));
    b.s.threads[ct].push(Op::IterDrain { it });
    let pt = b.thread();
    b.s.threads[pt].push(Op::GateAwait { gate: ready, entered: 1 });
    for j in 0..n {
        let r = RawOp { k: (i * 7 + j * 3) as u16, a: j as u16, b: (i + j) as u16, c: 0 };
        let o = ActOpts { reducers: &reds, middlewares: &[], effects: false, followups: false, veto: false, keeps: false, panics: false };
        let a = scripted_action(&mut b, s, &r, &o);
        b.s.threads[pt].push(Op::Dispatch { act: a, via: VIAS[(i + j) % 3] });
    }
    let st = b.thread();
    b.s.threads[st].push(Op::GateAwait { gate: paused, entered: 1 });
    b.s.threads[st].push(Op::Stop { store: s, via_trait: i % 2 == 1 });
    b.s.long_waits = true;
    b.finish()
}

pub fn c14_enumerate(tier: Tier, sched: bool) -> EnumSpec {
    let n = if sched { 0 } else if tier == Tier::Thorough { 20 } else { 6 };
    EnumSpec { n, make: Box::new(c14_paused_consumer), exhaustive: false }
}

pub fn c14_build(raw: &Raw, _tier: Tier, _sched: bool) -> Scenario {
    if (knob(raw, 0) >> 4) % 8 == 0 {
        return c14_late_iterator(raw);
    }
    let mut b = ScnB::new();
    let cap = CAPS[pick(knob(raw, 0), CAPS.len())];
    // a third of the stores discard on a full queue: what the iterator must yield is still the
    // notification stream (the pairs of the actions that were reduced), and it must still end
    let s = b.store("c14", cap, POLS_MOSTLY_BLOCK[pick(knob(raw, 12), POLS_MOSTLY_BLOCK.len())], CTORS[pick(knob(raw, 1), 3)].clone());
    let reds = vec![b.reducer(s)];
    let d = b.sub(SubKind::Direct);
    b.s.prelude.push(Op::Subscribe { store: s, sub: d });
    let ready = b.gate();
    let wait_ready = knob(raw, 2) % 2 == 0;
    // some actions before the iterator exists
    let pre = pick(knob(raw, 3), 3);
    for i in 0..pre {
        let a = b.action(s, i as u8);
        b.s.prelude.push(Op::Dispatch { act: a, via: Via::Inherent });
    }
    for ops in raw.threads.iter() {
        let th = b.thread();
        if wait_ready {
            // (the first iterator to exist is enough for the producers to start)
            b.s.threads[th].push(Op::GateAwait { gate: ready, entered: 1 });
        }
        for r in ops {
            if r.k % 8 == 7 {
                b.s.threads[th].push(Op::Stall(stall_of(r.a)));
                continue;
            }
            let o = ActOpts { reducers: &reds, middlewares: &[], effects: false, followups: false, veto: false, keeps: (r.k >> 8) % 4 == 0, panics: false };
            let a = scripted_action(&mut b, s, r, &o);
            b.s.threads[th].push(Op::Dispatch { act: a, via: via_of(r) });
        }
    }
    // a third of the cases: a subscriber registered *before* the iterators leaves in the middle of
    // a notification round (it unsubscribes itself from inside its callback): the iterators,
    // which come later in the list, must not lose that round
    if knob(raw, 13) % 3 == 0 {
        let acts: Vec<ActId> = b.s.threads.iter().flatten().filter_map(|o| match o { Op::Dispatch { act, .. } => Some(*act), _ => None }).collect();
        if !acts.is_empty() {
            let e = b.sub(SubKind::Direct);
            b.s.prelude.insert(1, Op::Subscribe { store: s, sub: e });
            let trigger = acts[pick(knob(raw, 14), acts.len())];
            b.sub_mut(e).on_notify_ops.push((trigger, vec![Op::Unsubscribe { store: s, sub: e }]));
        }
    }
    // consumer
    let ct = b.thread();
    let lead = pick(knob(raw, 4), 3);
    for i in 0..lead {
        b.s.threads[ct].push(Op::Stall(stall_of(knob(raw, 5).wrapping_add(i as u16))));
    }
    let until_none = knob(raw, 6) % 2 == 0;
    let it = b.iter_id();
    let consume = if until_none { Consume::UntilNone } else { Consume::TakeThenDrop(pick(knob(raw, 7), 6) as u32) };
    b.s.threads[ct].push(Op::Iter { store: s, it, consume, ready: Some(ready) });
    // a second, dropping consumer sometimes
    let mut consumers = 1;
    if knob(raw, 8) % 4 == 0 {
        let c2 = b.thread();
        let it2 = b.iter_id();
        consumers += 1;
        b.s.threads[c2].push(Op::Iter { store: s, it: it2, consume: Consume::TakeThenDrop(pick(knob(raw, 9), 4) as u32), ready: Some(ready) });
    }
    // stopper: needed when a consumer runs to None. The property is about iterators created before
    // stop(): it only waits until every iterator exists, never for anything else
    let st = b.thread();
    b.s.threads[st].push(Op::GateAwait { gate: ready, entered: consumers });
    let lead = pick(knob(raw, 10), 6);
    for i in 0..lead {
        b.s.threads[st].push(Op::Stall(stall_of(knob(raw, 11).wrapping_add(i as u16 * 3))));
    }
    b.s.threads[st].push(Op::Stop { store: s, via_trait: false });
    b.finish()
}

pub fn c14_check(scn: &Scenario, h: &History) -> Outcome {
    let mut out = Outcome::default();
    let Some((d, p)) = prepare("C14", true, scn, h, &mut out) else { return out };
    note_others(&p, &[], &mut out);
    let s = 0;
    let runs = &p.runs[s];
    let sd_stream = stream_of(h, 0);
    let dacts: Vec<(ActId, St)> = sd_stream.iter().map(|x| (x.0, x.1)).collect();
    let has_d = scn.prelude.iter().any(|o| matches!(o, Op::Subscribe { sub: 0, .. }));
    // the store keeps processing whatever the consumers do
    if scn.stores[s].policy == Pol::Block {
        for x in d.disps.iter().filter(|x| x.ok == Some(true)) {
            if !runs.iter().any(|r| r.act == x.act) {
                out.viol(format!("action {} was accepted but never reduced", x.act));
            }
        }
    } else {
        out.class("drop-policy-store");
    }
    for f in p.findings.iter().filter(|f| f.kind == Kind::Notify) {
        out.viol(format!("[Notify] @{}: {}", f.pos, f.msg));
    }
    if scn.long_waits {
        out.class("paused-consumer");
        let stop_was_slow = h.slow.iter().any(|(th, ix, _)| matches!(d.op(*th, *ix), Some(Op::Stop { .. })));
        if stop_was_slow {
            out.class("paused-consumer-and-stop-waited-2.5s-or-more");
        }
    }
    let iters: Vec<(u32, Consume)> = scn.threads.iter().flatten().filter_map(|o| match o {
        Op::Iter { it, consume, .. } => Some((*it, *consume)),
        // the paused consumer: opened, partly read, left alone, then drained
        Op::IterOpen { it, .. } => Some((*it, Consume::UntilNone)),
        _ => None,
    }).collect();
    for (it, consume) in iters {
        let Some(new_pos) = h.recs.iter().position(|r| matches!(&r.ev, Ev::ItNew { it: i } if *i == it)) else { continue };
        let items: Vec<(ActId, St, Pos)> = h.recs.iter().enumerate().filter_map(|(pos, r)| match &r.ev {
            Ev::It { it: i, act, st } if *i == it => Some((*act, *st, pos)),
            _ => None,
        }).collect();
        let nones: Vec<(u32, Pos)> = h.recs.iter().enumerate().filter_map(|(pos, r)| match &r.ev {
            Ev::ItNone { it: i, nth } if *i == it => Some((*nth, pos)),
            _ => None,
        }).collect();
        let got: Vec<(ActId, St)> = items.iter().map(|x| (x.0, x.1)).collect();
        if !has_d {
            // the late-iterator scenario has no reference subscriber: whatever the backlog still
            // yields, the iterator must end (None, thrice) and yield nothing afterwards
            out.class("late-iterator-on-a-subscriberless-store");
            out.nontrivial = true;
            if nones.len() != 3 {
                out.viol(format!("iterator {} (created after the store was closed / stopped): next() returned None {} times out of 3 calls after the end", it, nones.len()));
            }
            if let (Some((_, np)), Some(last)) = (nones.first(), items.last()) {
                if *np < last.2 {
                    out.viol(format!("iterator {} yielded an item after returning None", it));
                }
            }
            let mut seen = HashSet::new();
            for (a, _, _) in &items {
                if !seen.insert(*a) {
                    out.viol(format!("iterator {} yielded action {} twice", it, a));
                }
            }
            continue;
        }
        // contiguous window of the direct subscriber's stream, no gaps, no repeats
        let start = got.first().and_then(|f| dacts.iter().position(|y| y == f));
        if let Some(f) = got.first() {
            match start {
                None => out.viol(format!("iterator {} yielded {:?}, which the whole-run direct subscriber never saw", it, f)),
                Some(i0) => {
                    let n = got.len();
                    if i0 + n > dacts.len() || dacts[i0..i0 + n] != got[..] {
                        out.viol(format!("iterator {} yielded actions {:?}; the notification stream from its first item on is {:?} (gap, repeat or reordering)", it, got.iter().map(|x| x.0).collect::<Vec<_>>(), dacts[i0..].iter().map(|x| x.0).collect::<Vec<_>>()));
                    }
                }
            }
        }
        // nothing dispatched after iter() returned may be missing at the front
        let first_required = sd_stream.iter().position(|(a, _, _)| d.disp_of(*a).map(|x| x.inv > new_pos).unwrap_or(false));
        let ran_to_none = !nones.is_empty();
        if let Some(fr) = first_required {
            let window_start = start.unwrap_or(usize::MAX);
            let complete_expected = ran_to_none || matches!(consume, Consume::TakeThenDrop(k) if k > 0);
            if complete_expected && (got.is_empty() && ran_to_none || (!got.is_empty() && window_start > fr)) {
                out.viol(format!("iterator {} skipped action {} which was dispatched after iter() had returned (its first item is {:?})", it, sd_stream[fr].0, got.first().map(|x| x.0)));
            }
        }
        match consume {
            Consume::UntilNone => {
                // after the stop: the remaining pairs, then None, and None again
                if let Some(i0) = start {
                    if i0 + got.len() != dacts.len() {
                        out.viol(format!("iterator {} ended after {} items but the notification stream continues: missing {:?}", it, got.len(), dacts[i0 + got.len()..].iter().map(|x| x.0).collect::<Vec<_>>()));
                    }
                }
                if nones.len() != 3 {
                    out.viol(format!("iterator {}: next() after the end returned None {} times out of 3 calls", it, nones.len()));
                }
                if let (Some((_, np)), Some(last)) = (nones.first(), items.last()) {
                    if *np < last.2 {
                        out.viol(format!("iterator {} yielded an item after returning None", it));
                    }
                }
                out.class("consumed-until-none");
            }
            Consume::TakeThenDrop(k) => {
                if got.len() > k as usize {
                    out.viol(format!("iterator {} yielded {} items for take({})", it, got.len(), k));
                }
                out.class("dropped-mid-stream");
            }
        }
        // non-triviality
        let last_disp_inv = d.disps.iter().map(|x| x.inv).max().unwrap_or(0);
        let while_dispatching = items.iter().filter(|x| x.2 < last_disp_inv).count();
        let stop_inv = d.stores[s].first_stop_inv.unwrap_or(usize::MAX);
        let mid = match consume {
            Consume::UntilNone => items.iter().any(|x| x.2 > stop_inv) || items.last().map(|x| x.2 < stop_inv).unwrap_or(false) && !got.is_empty(),
            Consume::TakeThenDrop(_) => h.recs.iter().enumerate().any(|(pos, r)| matches!(&r.ev, Ev::ItDropIn { it: i } if *i == it) && runs.iter().any(|r| r.first > pos)),
        };
        if while_dispatching >= 2 {
            out.class("items-while-producers-active");
        }
        if while_dispatching >= 2 && mid {
            out.nontrivial = true;
        }
    }
    out
}

pub static C14: Profile = Profile {
    id: "C14",
    rule: "proptest scenarios: a store with any policy (two thirds BlockOnFull), a whole-run direct subscriber D registered first, 0-2 actions dispatched before the iterator exists, 1-3 producers (half of the cases wait until iter() has returned), a consumer thread that creates the iterator and either runs it to None (+ two more next()) or takes k items and drops it, sometimes a second dropping consumer, and a stopper thread that stops the store at a generated point; an eighth of the cases instead obtain the iterator from a store that never had a subscriber and has already been closed / stopped; real threads only: 6 (thorough: 20) enumerated scenarios in which the consumer takes 1-2 pairs and then stays away for 3.6 / 4.5 s - longer than stop()'s internal 3 s wait - while stop() is called with 3-7 pairs outstanding, then drains. Oracle O-ITER: items are a gap-free, repeat-free window of D's (state,action) stream, contain every notifying action dispatched after iter() returned, reach the end of D's stream when run to None, None thrice; after a drop the store keeps processing and stop() completes (deadlock = violation). Non-trivial = the consumer received >= 2 items while producers were still dispatching and the stop (or drop) came mid-stream; distinct by scenario hash.",
    raw: raw3,
    build: c14_build,
    check: c14_check,
    budget: Budget { r_cases: (3000, 20000), s_cases: (4000, 10000), s_scheds: (16, 64) },
    liveness: true,
    enumerate: Some(c14_enumerate),
    extra: None,
    borrow: &[],
    assumptions: &["the reference stream is what the whole-run direct subscriber D was told (under a drop policy: the actions that survived)", "paused-consumer scenarios: operations that take seconds are expected there and are not a signal either way; what is judged is only what the iterator yields once the consumer is back"],
};
