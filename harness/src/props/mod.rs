pub mod common;
pub mod c01;
pub mod c11;
pub mod c12;
pub mod config;
pub mod multi;
pub mod c13;
pub mod subs;
pub mod queue;
pub mod barrier;
pub mod pipegen;
pub mod pipeprops;

use crate::profile::Profile;

pub fn all() -> Vec<&'static Profile> {
    vec![&c01::PROFILE, &pipeprops::C02, &pipeprops::C03, &barrier::C04, &queue::C05, &queue::C06, &pipeprops::C07, &pipeprops::C08, &subs::C09, &subs::C10, &c11::PROFILE, &c12::PROFILE, &c13::PROFILE, &subs::C14, &barrier::C15, &config::C16, &config::C17, &multi::C18, &multi::C19]
}

pub fn by_id(id: &str) -> Option<&'static Profile> {
    all().into_iter().find(|p| p.id == id)
}
