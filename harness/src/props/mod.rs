pub mod common;
pub mod c01;
pub mod c12;

use crate::profile::Profile;

pub fn all() -> Vec<&'static Profile> {
    vec![&c01::PROFILE, &c12::PROFILE]
}

pub fn by_id(id: &str) -> Option<&'static Profile> {
    all().into_iter().find(|p| p.id == id)
}
