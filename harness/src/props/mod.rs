pub mod common;
pub mod c01;
pub mod c12;
pub mod pipegen;
pub mod pipeprops;

use crate::profile::Profile;

pub fn all() -> Vec<&'static Profile> {
    vec![&c01::PROFILE, &pipeprops::C02, &pipeprops::C03, &pipeprops::C07, &pipeprops::C08, &c12::PROFILE]
}

pub fn by_id(id: &str) -> Option<&'static Profile> {
    all().into_iter().find(|p| p.id == id)
}
