//! Programmatic scenario construction (used by generators and exhaustive enumerators).
use crate::scenario::*;

#[derive(Clone, Debug, Default)]
pub struct ScnB {
    pub s: Scenario,
    next_comp: CompId,
    next_sub: SubId,
    next_eff: EffId,
    next_it: u32,
}

impl ScnB {
    pub fn new() -> Self {
        Self::default()
    }
    pub fn store(&mut self, name: &str, capacity: usize, policy: Pol, ctor: Ctor) -> StoreIx {
        self.s.stores.push(StoreSpec {
            name: name.to_string(),
            capacity,
            policy,
            reducers: vec![],
            middlewares: vec![],
            ctor,
            droppable: false,
        });
        self.s.stores.len() - 1
    }
    pub fn comp(&mut self) -> CompId {
        let id = self.next_comp;
        self.next_comp += 1;
        self.s.comps.push(CompSpec { id, gate: None, reads_state: false, pokes: None });
        id
    }
    pub fn comp_mut(&mut self, id: CompId) -> &mut CompSpec {
        self.s.comps.iter_mut().find(|c| c.id == id).unwrap()
    }
    /// build-time reducer
    pub fn reducer(&mut self, store: StoreIx) -> CompId {
        let c = self.comp();
        self.s.stores[store].reducers.push(c);
        c
    }
    /// build-time middleware
    pub fn middleware(&mut self, store: StoreIx) -> CompId {
        let c = self.comp();
        self.s.stores[store].middlewares.push(c);
        c
    }
    pub fn gate(&mut self) -> GateId {
        let g = self.s.gates;
        self.s.gates += 1;
        g
    }
    pub fn sub(&mut self, kind: SubKind) -> SubId {
        let id = self.next_sub;
        self.next_sub += 1;
        self.s.subs.push(SubSpec { id, kind, reads_state: false, gate: None, stall: Stall::None, via_trait: id % 3 == 2, forwards: false, on_unsub_ops: vec![], on_notify_ops: vec![], fn_wrapped: false });
        id
    }
    pub fn sub_mut(&mut self, id: SubId) -> &mut SubSpec {
        self.s.subs.iter_mut().find(|c| c.id == id).unwrap()
    }
    pub fn action(&mut self, store: StoreIx, sel: u8) -> ActId {
        self.s.actions.push(ActScript { store, sel, ..Default::default() });
        (self.s.actions.len() - 1) as ActId
    }
    pub fn act_mut(&mut self, a: ActId) -> &mut ActScript {
        &mut self.s.actions[a as usize]
    }
    pub fn eff(&mut self, kind: EffKind, panics: bool, stall: Stall) -> EffSpec {
        let id = self.next_eff;
        self.next_eff += 1;
        EffSpec { id, kind, panics, stall, ops: vec![] }
    }
    pub fn iter_id(&mut self) -> u32 {
        let i = self.next_it;
        self.next_it += 1;
        i
    }
    pub fn thread(&mut self) -> usize {
        self.s.threads.push(vec![]);
        self.s.threads.len() - 1
    }
    pub fn finish(self) -> Scenario {
        self.s
    }
}

/// Monotone index mapping (shrinks towards 0 without stalling): raw in 0..=u16::MAX.
pub fn pick(raw: u16, len: usize) -> usize {
    if len == 0 {
        0
    } else {
        ((raw as usize) * len) >> 16
    }
}
