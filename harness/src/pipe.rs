//! O-PIPE: the sequential reference model of the store pipeline, applied to the observed
//! per-action callback sequences. Written from the property statements and the documented
//! middleware contract, not from store_impl.rs.
//!
//! Discrepancies are typed; each property's check looks only at its own types.
use crate::digest::*;
use crate::log::*;
use crate::scenario::*;
use std::collections::{HashMap, HashSet};

#[derive(Clone, Copy, Debug, PartialEq, Eq, Hash)]
pub enum Kind {
    /// state threading / exactly-once (C01)
    Fold,
    /// phase order, overlap, reducer context, required component missing (C07)
    Phase,
    /// middleware contract (C12)
    Verdict,
    /// direct-subscriber stream (C03)
    Notify,
    /// notification after unsubscribe() returned (C09 clause 2)
    Late,
    /// an event of one store carrying a component/action of another (C19)
    Isolation,
}

#[derive(Clone, Debug)]
pub struct Finding {
    pub kind: Kind,
    pub store: StoreIx,
    pub act: Option<ActId>,
    pub pos: Pos,
    pub sub: Option<SubId>,
    pub msg: String,
}

#[derive(Clone, Copy, Debug, PartialEq, Eq)]
pub enum Tri {
    Yes,
    No,
    Unspecified,
}

#[derive(Clone, Debug)]
pub struct RunInfo {
    pub act: ActId,
    pub pre: St,
    pub post: St,
    pub vetoed: bool,
    pub reducers: Vec<CompId>,
    pub keeps: Vec<bool>,
    pub effects_returned: Vec<EffId>,
    pub effects_surviving: Vec<EffId>,
    pub notify: Tri,
    /// direct/selector subscribers observed being notified, in order, with position of NotIn/SelIn
    pub notified: Vec<(SubId, Pos)>,
    pub hooks: usize,
    pub first: Pos,
    pub last: Pos,
    /// position of the last RedOut (state is final from the model's point of view) or `first`
    pub reduced_at: Pos,
}

#[derive(Default)]
pub struct PipeResult {
    pub findings: Vec<Finding>,
    pub runs: Vec<Vec<RunInfo>>,
    pub final_state: Vec<St>,
}

struct Cx<'a, 'b> {
    d: &'b Digest<'a>,
    s: StoreIx,
    out: Vec<Finding>,
}

impl<'a, 'b> Cx<'a, 'b> {
    fn f(&mut self, kind: Kind, act: Option<ActId>, pos: Pos, sub: Option<SubId>, msg: String) {
        self.out.push(Finding { kind, store: self.s, act, pos, sub, msg });
    }
}

fn is_static(iv: &Interval) -> bool {
    iv.add_ret == Some(0) && iv.add_inv == Some(0)
}

/// x was definitely registered before y
fn definitely_before(list: &[(u32, Interval)], x: u32, y: u32) -> bool {
    let ix = list.iter().position(|(c, _)| *c == x);
    let iy = list.iter().position(|(c, _)| *c == y);
    let (Some(ix), Some(iy)) = (ix, iy) else { return false };
    let (a, b) = (&list[ix].1, &list[iy].1);
    match (is_static(a), is_static(b)) {
        (true, true) => ix < iy,
        (true, false) => true,
        (false, true) => false,
        (false, false) => match (a.add_ret, b.add_inv) {
            (Some(r), Some(i)) => r < i,
            _ => false,
        },
    }
}

/// lower bound of the moment action `a` was dispatched (for "registered before dispatched")
fn dispatch_lower_bound(d: &Digest, a: ActId) -> Pos {
    if let Some(x) = d.disp_of(a) {
        return x.inv;
    }
    // follow-up produced by Effect::Action(a): dispatched after its producer's reducer returned
    for (p, r) in d.h.recs.iter().enumerate() {
        if let Ev::RedOut { act, eff: Some(e), .. } = &r.ev {
            let sc = &d.scn.actions[*act as usize];
            if sc.effects.iter().any(|(_, es)| es.id == *e && es.kind == EffKind::Action(a)) {
                return p;
            }
        }
    }
    0
}

pub fn check(d: &Digest) -> PipeResult {
    let mut res = PipeResult::default();
    for s in 0..d.stores.len() {
        let (f, runs, fin) = check_store(d, s);
        res.findings.extend(f);
        res.runs.push(runs);
        res.final_state.push(fin);
    }
    res
}

fn check_store(d: &Digest, s: StoreIx) -> (Vec<Finding>, Vec<RunInfo>, St) {
    let sd = &d.stores[s];
    let mut cx = Cx { d, s, out: vec![] };
    let mut cur = initial_state(s);
    let mut infos = Vec::new();
    let mut seen: HashSet<ActId> = HashSet::new();
    let mut red_count: HashMap<(ActId, CompId), u32> = HashMap::new();
    for (run_ix, run) in sd.runs.iter().enumerate() {
        let a = run.act;
        // the reducer had certainly left this action's notify phase when the next action's first
        // callback ran (or at the end of the log)
        let left_by = sd.runs.get(run_ix + 1).map(|n| n.first).unwrap_or(d.h.recs.len());
        if !seen.insert(a) {
            cx.f(Kind::Phase, Some(a), run.first, None, format!("callbacks of action {} are not contiguous: another action's callbacks ran in between", a));
        }
        let sc = &d.scn.actions[a as usize];
        let lb = dispatch_lower_bound(d, a);
        let toks: Vec<(Pos, &Rec)> = run.evs.iter().map(|p| (*p, d.rec(*p))).collect();
        for (p, r) in &toks {
            if Some(r.tid) != sd.red_tid {
                cx.f(Kind::Phase, Some(a), *p, None, format!("callback {:?} ran on thread {} but the store's reducer context is thread {:?}", r.ev, r.tid, sd.red_tid));
            }
        }
        let mut i = 0usize;
        let mut hooks = 0usize;
        let pre = cur;
        // ---------------- before_reduce
        let (veto, _) = mw_phase(&mut cx, &toks, &mut i, Hook::BeforeReduce, a, pre, None, lb, true, &mut hooks);
        // ---------------- reducers
        let mut reducers = Vec::new();
        let mut keeps = Vec::new();
        let mut effs: Vec<EffId> = Vec::new();
        let mut st = cur;
        let mut reduced_at = run.first;
        loop {
            let Some((p, r)) = toks.get(i) else { break };
            let Ev::RedIn { comp, act: _, st: seen_st } = &r.ev else { break };
            let comp = *comp;
            if veto {
                cx.f(Kind::Verdict, Some(a), *p, None, format!("action {} was vetoed by before_reduce (DoneAction) but reducer {} was called", a, comp));
            }
            match sd.reducers.iter().find(|(c, _)| *c == comp) {
                None => cx.f(Kind::Isolation, Some(a), *p, None, format!("reducer {} is not registered on store {}", comp, s)),
                Some((_, iv)) => {
                    if iv.add_inv.map(|x| x > *p).unwrap_or(true) {
                        cx.f(Kind::Phase, Some(a), *p, None, format!("reducer {} ran before it was registered", comp));
                    }
                }
            }
            for prev in &reducers {
                if definitely_before(&sd.reducers, comp, *prev) {
                    cx.f(Kind::Phase, Some(a), *p, None, format!("reducer {} (registered earlier) ran after reducer {}", comp, prev));
                }
            }
            if *seen_st != st {
                cx.f(
                    Kind::Fold,
                    Some(a),
                    *p,
                    None,
                    format!("reducer {} of action {} received state {:?}, expected {:?} ({})", comp, a, seen_st, st, if reducers.is_empty() { "state left by the previous action" } else { "output of the previous reducer" }),
                );
            }
            *red_count.entry((a, comp)).or_default() += 1;
            i += 1;
            match toks.get(i) {
                Some((p2, Rec { ev: Ev::RedOut { comp: c2, out, keep, eff, .. }, .. })) if *c2 == comp => {
                    st = *out;
                    reducers.push(comp);
                    keeps.push(*keep);
                    if let Some(e) = eff {
                        effs.push(*e);
                    }
                    reduced_at = *p2;
                    i += 1;
                }
                other => {
                    cx.f(Kind::Phase, Some(a), *p, None, format!("reducer {} had not returned when the next callback started: {:?}", comp, other.map(|x| &x.1.ev)));
                    reducers.push(comp);
                    keeps.push(false);
                }
            }
        }
        if !veto {
            for (c, iv) in &sd.reducers {
                let required = is_static(iv) || iv.add_ret.map(|r| r < lb).unwrap_or(false);
                if required && !reducers.contains(c) {
                    cx.f(Kind::Phase, Some(a), run.first, None, format!("reducer {} was registered before action {} was dispatched but did not run for it", c, a));
                }
            }
        }
        let post = st;
        let effects_returned = effs.clone();
        // ---------------- before_effect
        let mut effs_model = effs.clone();
        let (_, _) = mw_phase(&mut cx, &toks, &mut i, Hook::BeforeEffect, a, post, Some(&mut effs_model), lb, !veto, &mut hooks);
        // ---------------- before_dispatch
        let need_dispatch = if veto || reducers.is_empty() {
            Tri::Unspecified
        } else if keeps.iter().all(|k| !*k) {
            Tri::Yes
        } else if keeps.iter().all(|k| *k) {
            Tri::No
        } else {
            Tri::Unspecified
        };
        let (bd_done, _) = mw_phase(&mut cx, &toks, &mut i, Hook::BeforeDispatch, a, post, None, lb, need_dispatch == Tri::Yes, &mut hooks);
        let notify = match need_dispatch {
            Tri::Yes if bd_done => Tri::No,
            x => x,
        };
        if bd_done && need_dispatch == Tri::Unspecified {
            // suppressed for sure, whatever the unspecified decision was
        }
        let notify = if bd_done { Tri::No } else { notify };
        // ---------------- subscribers
        let mut notified: Vec<(SubId, Pos)> = Vec::new();
        loop {
            let Some((p, r)) = toks.get(i) else { break };
            let (sub, st_seen) = match &r.ev {
                Ev::NotIn { sub, st, .. } => (*sub, *st),
                Ev::SelIn { sub, st } => (*sub, *st),
                _ => break,
            };
            let is_sel = matches!(r.ev, Ev::SelIn { .. });
            if notify == Tri::No {
                cx.f(
                    Kind::Notify,
                    Some(a),
                    *p,
                    Some(sub),
                    format!("subscriber {} was notified of action {} which must not notify ({})", sub, a, if bd_done { "before_dispatch answered DoneAction" } else { "its reducers answered Keep" }),
                );
                if bd_done {
                    cx.f(Kind::Verdict, Some(a), *p, Some(sub), format!("before_dispatch answered DoneAction for action {} but subscriber {} was notified", a, sub));
                }
            }
            if st_seen != post {
                cx.f(Kind::Notify, Some(a), *p, Some(sub), format!("subscriber {} was given state {:?} for action {}, expected the state produced by it {:?}", sub, st_seen, a, post));
            }
            match sd.subs.iter().find(|(x, _)| *x == sub) {
                None => cx.f(Kind::Isolation, Some(a), *p, Some(sub), format!("subscriber {} is not registered on store {}", sub, s)),
                Some((_, iv)) => {
                    if iv.add_inv.map(|x| x > *p).unwrap_or(true) {
                        cx.f(Kind::Phase, Some(a), *p, Some(sub), format!("subscriber {} notified before it was registered", sub));
                    }
                    if let Some(ur) = iv.unsub_ret {
                        if *p > ur {
                            cx.f(Kind::Late, Some(a), *p, Some(sub), format!("subscriber {} notified of action {} after its unsubscribe() had returned", sub, a));
                        }
                    }
                }
            }
            for (prev, _) in &notified {
                if *prev == sub {
                    cx.f(Kind::Notify, Some(a), *p, Some(sub), format!("subscriber {} notified twice of action {}", sub, a));
                } else if definitely_before(&sd.subs, sub, *prev) {
                    cx.f(Kind::Notify, Some(a), *p, Some(sub), format!("subscriber {} (registered earlier) notified after subscriber {}", sub, prev));
                }
            }
            notified.push((sub, *p));
            i += 1;
            if is_sel {
                if let Some((_, Rec { ev: Ev::SelCb { sub: s2, .. }, .. })) = toks.get(i) {
                    if *s2 == sub {
                        i += 1;
                    }
                }
            } else {
                match toks.get(i) {
                    Some((_, Rec { ev: Ev::NotOut { sub: s2, .. }, .. })) if *s2 == sub => i += 1,
                    other => cx.f(Kind::Phase, Some(a), *p, Some(sub), format!("subscriber {} had not returned when the next callback started: {:?}", sub, other.map(|x| &x.1.ev))),
                }
            }
        }
        if notify == Tri::Yes {
            for (sub, iv) in &sd.subs {
                if !matches!(d.sub_kind(*sub), SubKind::Direct | SubKind::Selector { .. } | SubKind::SelectorObj { .. }) {
                    continue;
                }
                let required = iv.add_ret.map(|r| r < lb).unwrap_or(false) && iv.unsub_inv.map(|u| u > left_by).unwrap_or(true);
                if required && !notified.iter().any(|(x, _)| x == sub) {
                    cx.f(Kind::Notify, Some(a), run.last, Some(*sub), format!("subscriber {} was registered before action {} was dispatched but was not notified of it", sub, a));
                }
            }
        }
        if i < toks.len() {
            let (p, r) = &toks[i];
            cx.f(Kind::Phase, Some(a), *p, None, format!("callback out of phase order for action {}: {:?}", a, r.ev));
        }
        // effects that must run: what the model says survived before_effect
        infos.push(RunInfo {
            act: a,
            pre,
            post,
            vetoed: veto,
            reducers,
            keeps,
            effects_returned,
            effects_surviving: effs_model,
            notify,
            notified,
            hooks,
            first: run.first,
            last: run.last,
            reduced_at,
        });
        let _ = sc;
        cur = post;
    }
    for ((a, c), n) in red_count {
        if n > 1 {
            cx.f(Kind::Fold, Some(a), 0, None, format!("reducer {} ran {} times for action {}", c, n, a));
        }
    }
    (cx.out, infos, cur)
}

/// Parses one middleware phase. Returns (any DoneAction seen, chain broken).
#[allow(clippy::too_many_arguments)]
fn mw_phase(
    cx: &mut Cx,
    toks: &[(Pos, &Rec)],
    i: &mut usize,
    hook: Hook,
    a: ActId,
    expect_st: St,
    mut effs: Option<&mut Vec<EffId>>,
    lb: Pos,
    phase_required: bool,
    hooks: &mut usize,
) -> (bool, bool) {
    let d = cx.d;
    let sd = &d.stores[cx.s];
    let sc = &d.scn.actions[a as usize];
    let mut done = false;
    let mut broke: Option<CompId> = None;
    let mut seen: Vec<CompId> = Vec::new();
    let start = toks.get(*i).map(|x| x.0).unwrap_or(0);
    loop {
        let Some((p, r)) = toks.get(*i) else { break };
        let Ev::MwIn { comp, hook: h, st, neff, .. } = &r.ev else { break };
        if *h != hook {
            break;
        }
        let comp = *comp;
        *hooks += 1;
        if let Some(b) = broke {
            cx.f(Kind::Verdict, Some(a), *p, None, format!("middleware {} answered BreakChain in {:?} but middleware {} was still called in that phase", b, hook, comp));
        }
        match sd.middlewares.iter().find(|(c, _)| *c == comp) {
            None => cx.f(Kind::Isolation, Some(a), *p, None, format!("middleware {} is not registered on store {}", comp, cx.s)),
            Some((_, iv)) => {
                if iv.add_inv.map(|x| x > *p).unwrap_or(true) {
                    cx.f(Kind::Phase, Some(a), *p, None, format!("middleware {} ran before it was registered", comp));
                }
            }
        }
        for prev in &seen {
            if *prev == comp {
                cx.f(Kind::Phase, Some(a), *p, None, format!("middleware {} called twice in {:?} for action {}", comp, hook, a));
            } else if definitely_before(&sd.middlewares, comp, *prev) {
                cx.f(Kind::Phase, Some(a), *p, None, format!("middleware {} (registered earlier) ran after middleware {} in {:?}", comp, prev, hook));
            }
        }
        if *st != expect_st {
            cx.f(
                Kind::Verdict,
                Some(a),
                *p,
                None,
                format!("{:?} of middleware {} for action {} saw state {:?}, documented argument is {:?}", hook, comp, a, st, expect_st),
            );
        }
        if let Some(effs) = effs.as_deref_mut() {
            if *neff as usize != effs.len() {
                cx.f(Kind::Verdict, Some(a), *p, None, format!("before_effect of middleware {} for action {} saw {} effects, expected {} ({:?})", comp, a, neff, effs.len(), effs));
            }
            let rm = sc.removed_by(comp);
            effs.retain(|e| !rm.contains(e));
            effs.extend(sc.added_by(comp).iter().map(|e| e.id));
        }
        seen.push(comp);
        *i += 1;
        match toks.get(*i) {
            Some((p2, Rec { ev: Ev::MwOut { comp: c2, hook: h2, verdict, .. }, .. })) if *c2 == comp && *h2 == hook => {
                *i += 1;
                match verdict {
                    Verdict::Continue => {}
                    Verdict::Done => done = true,
                    Verdict::Break => broke = Some(comp),
                    Verdict::Err => {
                        match toks.get(*i) {
                            Some((_, Rec { ev: Ev::MwErr { comp: c3 }, .. })) if *c3 == comp => *i += 1,
                            _ => cx.f(Kind::Verdict, Some(a), *p2, None, format!("middleware {} returned Err from {:?} but its on_error was not called", comp, hook)),
                        }
                    }
                }
                while let Some((p3, Rec { ev: Ev::MwErr { comp: c3 }, .. })) = toks.get(*i) {
                    cx.f(Kind::Verdict, Some(a), *p3, None, format!("on_error of middleware {} called without (or more than once per) Err from {:?} of middleware {}", c3, hook, comp));
                    *i += 1;
                }
            }
            other => {
                cx.f(Kind::Phase, Some(a), *p, None, format!("middleware {} had not returned from {:?} when the next callback started: {:?}", comp, hook, other.map(|x| &x.1.ev)));
            }
        }
    }
    if phase_required {
        for (c, iv) in &sd.middlewares {
            let required = is_static(iv) || iv.add_ret.map(|r| r < lb).unwrap_or(false);
            if !required || seen.contains(c) {
                continue;
            }
            let excused = match broke {
                Some(b) => !definitely_before(&sd.middlewares, *c, b),
                None => false,
            };
            if !excused {
                cx.f(Kind::Phase, Some(a), start, None, format!("middleware {} was registered before action {} was dispatched but its {:?} was not called", c, a, hook));
            }
        }
    }
    (done, broke.is_some())
}
