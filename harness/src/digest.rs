//! Turns a raw event log into the relations the oracles reason about: per-op Inv/Ret positions,
//! dispatch calls, per-store pipeline runs, registration intervals of run-time components.
use crate::log::*;
use crate::scenario::*;
use std::collections::HashMap;

pub type Pos = usize;

#[derive(Clone, Debug)]
pub struct OpRec {
    pub th: u32,
    pub ix: u32,
    pub inv: Pos,
    pub ret: Option<Pos>,
    pub res: Option<Res>,
    pub tid: Tid,
}

#[derive(Clone, Debug, PartialEq, Eq)]
pub enum Src {
    Client { th: u32, ix: u32 },
    Nest(Nest),
}

#[derive(Clone, Debug)]
pub struct Disp {
    pub act: ActId,
    pub via: Option<Via>,
    pub src: Src,
    pub inv: Pos,
    pub ret: Option<Pos>,
    pub ok: Option<bool>,
    pub tid: Tid,
}

/// One contiguous group of reducer-context events for one action of one store.
#[derive(Clone, Debug)]
pub struct Run {
    pub act: ActId,
    pub evs: Vec<Pos>,
    pub first: Pos,
    pub last: Pos,
}

#[derive(Clone, Debug, Default)]
pub struct Interval {
    pub add_inv: Option<Pos>,
    pub add_ret: Option<Pos>,
    pub unsub_inv: Option<Pos>,
    pub unsub_ret: Option<Pos>,
}

#[derive(Clone, Debug, Default)]
pub struct StoreDigest {
    pub built: Option<bool>,
    pub red_tid: Option<Tid>,
    pub runs: Vec<Run>,
    /// reducers / middlewares in registration order with the interval in which they were added
    /// (build-time components have add_inv = add_ret = Some(0))
    pub reducers: Vec<(CompId, Interval)>,
    pub middlewares: Vec<(CompId, Interval)>,
    /// subscribers registered on this store, in order of their Subscribe Inv
    pub subs: Vec<(SubId, Interval)>,
    /// first shutdown-ish call (Close/Stop/DropDroppable/cleanup) Inv and the first Stop-like Ret
    pub first_shutdown_inv: Option<Pos>,
    pub first_stop_ret: Option<Pos>,
    pub first_stop_inv: Option<Pos>,
}

pub struct Digest<'a> {
    pub scn: &'a Scenario,
    pub h: &'a History,
    pub ops: HashMap<(u32, u32), OpRec>,
    pub disps: Vec<Disp>,
    pub stores: Vec<StoreDigest>,
    pub comp_store: HashMap<CompId, StoreIx>,
    pub cleanup_in: Option<Pos>,
    pub cleanup_out: Option<Pos>,
}

pub fn op_of<'s>(scn: &'s Scenario, th: u32, ix: u32) -> Option<&'s Op> {
    if th >= 3000 {
        // operation issued from inside the notification callback of subscriber (th - 3000)
        return scn.subs.iter().find(|x| x.id == th - 3000).and_then(|x| x.on_notify_ops.get((ix / 16) as usize)).and_then(|x| x.1.get((ix % 16) as usize));
    }
    if th >= 2000 {
        // operation issued from inside on_unsubscribe of subscriber (th - 2000)
        return scn.subs.iter().find(|x| x.id == th - 2000).and_then(|x| x.on_unsub_ops.get(ix as usize));
    }
    if th >= 1000 {
        // operation issued from inside effect (th - 1000)
        let id = th - 1000;
        for a in &scn.actions {
            for (_, e) in &a.effects {
                if e.id == id {
                    return e.ops.get(ix as usize);
                }
            }
        }
        for o in scn.all_ops() {
            if let Op::DispatchThunk { eff, .. } | Op::DispatchTask { eff, .. } = o {
                if eff.id == id {
                    return eff.ops.get(ix as usize);
                }
            }
        }
        return None;
    }
    if th == 0 {
        let i = ix as usize;
        if i < scn.prelude.len() {
            scn.prelude.get(i)
        } else {
            scn.epilogue.get(i - scn.prelude.len())
        }
    } else {
        scn.threads.get(th as usize - 1).and_then(|t| t.get(ix as usize))
    }
}

impl<'a> Digest<'a> {
    pub fn rec(&self, p: Pos) -> &Rec {
        &self.h.recs[p]
    }
    pub fn op(&self, th: u32, ix: u32) -> Option<&Op> {
        op_of(self.scn, th, ix)
    }
    pub fn store_of_act(&self, a: ActId) -> StoreIx {
        self.scn.actions[a as usize].store
    }
    /// position of the dispatch call that introduced `a` (None for Effect::Action follow-ups)
    pub fn disp_of(&self, a: ActId) -> Option<&Disp> {
        self.disps.iter().find(|d| d.act == a)
    }
    pub fn run_of(&self, a: ActId) -> Option<&Run> {
        let s = self.store_of_act(a);
        self.stores[s].runs.iter().find(|r| r.act == a)
    }
    pub fn run_index(&self, a: ActId) -> Option<usize> {
        let s = self.store_of_act(a);
        self.stores[s].runs.iter().position(|r| r.act == a)
    }
    pub fn sub_kind(&self, s: SubId) -> SubKind {
        self.scn.sub(s).kind
    }

    pub fn new(scn: &'a Scenario, h: &'a History) -> Digest<'a> {
        let mut ops: HashMap<(u32, u32), OpRec> = HashMap::new();
        let mut disps: Vec<Disp> = Vec::new();
        let mut stores: Vec<StoreDigest> = (0..scn.stores.len()).map(|_| StoreDigest::default()).collect();
        let mut comp_store: HashMap<CompId, StoreIx> = HashMap::new();
        let mut cleanup_in = None;
        let mut cleanup_out = None;
        let zero = Interval { add_inv: Some(0), add_ret: Some(0), unsub_inv: None, unsub_ret: None };

        // static registrations are filled in when `Built` is seen (C17's explicit call lists are
        // resolved by the builder model in the C17 oracle, not here)
        for (ix, sp) in scn.stores.iter().enumerate() {
            if !matches!(sp.ctor, Ctor::Calls { .. }) {
                for c in &sp.reducers {
                    stores[ix].reducers.push((*c, zero.clone()));
                    comp_store.insert(*c, ix);
                }
                for c in &sp.middlewares {
                    stores[ix].middlewares.push((*c, zero.clone()));
                    comp_store.insert(*c, ix);
                }
            }
        }
        // first pass: ops, dispatches, registrations
        for (p, r) in h.recs.iter().enumerate() {
            match &r.ev {
                Ev::Built { store, ok } => stores[*store as usize].built = Some(*ok),
                Ev::CleanupIn => {
                    cleanup_in = Some(p);
                    for s in stores.iter_mut() {
                        s.first_shutdown_inv.get_or_insert(p);
                    }
                }
                Ev::CleanupOut => cleanup_out = Some(p),
                Ev::Inv { th, ix } => {
                    ops.insert((*th, *ix), OpRec { th: *th, ix: *ix, inv: p, ret: None, res: None, tid: r.tid });
                    match op_of(scn, *th, *ix) {
                        Some(Op::Dispatch { act, via }) => disps.push(Disp {
                            act: *act,
                            via: Some(*via),
                            src: Src::Client { th: *th, ix: *ix },
                            inv: p,
                            ret: None,
                            ok: None,
                            tid: r.tid,
                        }),
                        Some(Op::AddReducer { store, comp }) => {
                            stores[*store].reducers.push((*comp, Interval { add_inv: Some(p), ..Default::default() }));
                            comp_store.insert(*comp, *store);
                        }
                        Some(Op::AddMiddleware { store, comp }) => {
                            stores[*store].middlewares.push((*comp, Interval { add_inv: Some(p), ..Default::default() }));
                            comp_store.insert(*comp, *store);
                        }
                        Some(Op::Subscribe { store, sub }) => {
                            if !stores[*store].subs.iter().any(|(s, _)| s == sub) {
                                stores[*store].subs.push((*sub, Interval { add_inv: Some(p), ..Default::default() }));
                            }
                        }
                        Some(Op::Close { store }) | Some(Op::DropDroppable { store }) => {
                            stores[*store].first_shutdown_inv.get_or_insert(p);
                            if matches!(op_of(scn, *th, *ix), Some(Op::DropDroppable { .. })) {
                                stores[*store].first_stop_inv.get_or_insert(p);
                            }
                        }
                        Some(Op::Stop { store, .. }) => {
                            stores[*store].first_shutdown_inv.get_or_insert(p);
                            stores[*store].first_stop_inv.get_or_insert(p);
                        }
                        _ => {}
                    }
                }
                Ev::Ret { th, ix, res } => {
                    if let Some(o) = ops.get_mut(&(*th, *ix)) {
                        o.ret = Some(p);
                        o.res = Some(res.clone());
                    }
                    match op_of(scn, *th, *ix) {
                        Some(Op::Dispatch { act, .. }) => {
                            if let Some(d) = disps
                                .iter_mut()
                                .rev()
                                .find(|d| d.act == *act && d.src == Src::Client { th: *th, ix: *ix })
                            {
                                d.ret = Some(p);
                                d.ok = match res {
                                    Res::Ok => Some(true),
                                    Res::Err => Some(false),
                                    _ => None,
                                };
                            }
                        }
                        Some(Op::AddReducer { store, comp }) => {
                            if let Some((_, iv)) = stores[*store].reducers.iter_mut().find(|(c, _)| c == comp) {
                                iv.add_ret = Some(p);
                            }
                        }
                        Some(Op::AddMiddleware { store, comp }) => {
                            if let Some((_, iv)) = stores[*store].middlewares.iter_mut().find(|(c, _)| c == comp) {
                                iv.add_ret = Some(p);
                            }
                        }
                        Some(Op::Subscribe { store, sub }) => {
                            if let Some((_, iv)) = stores[*store].subs.iter_mut().find(|(s, _)| s == sub) {
                                if iv.add_ret.is_none() && matches!(res, Res::Ok) {
                                    iv.add_ret = Some(p);
                                }
                            }
                        }
                        Some(Op::Unsubscribe { store, sub }) => {
                            // resolved at Ret: `Ok` means unsubscribe() was really called (the
                            // subscription existed). Calls on one subscription are serialised by the
                            // harness, but their Ret events may be logged in any order, so which call
                            // was the effective one is not observable: the unsubscription may have
                            // begun at the earliest Inv of any such call, and it is certainly
                            // complete at the earliest Ret (a later call only gets the slot after
                            // the effective one has finished).
                            let inv = ops.get(&(*th, *ix)).map(|o| o.inv);
                            if let Some((_, iv)) = stores[*store].subs.iter_mut().find(|(s, _)| s == sub) {
                                if matches!(res, Res::Ok) {
                                    iv.unsub_inv = match (iv.unsub_inv, inv) {
                                        (Some(a), Some(b)) => Some(a.min(b)),
                                        (a, b) => a.or(b),
                                    };
                                    if iv.unsub_ret.is_none() {
                                        iv.unsub_ret = Some(p);
                                    }
                                }
                            }
                        }
                        Some(Op::Stop { store, .. }) | Some(Op::DropDroppable { store }) => {
                            if !matches!(res, Res::Skipped) {
                                stores[*store].first_stop_ret.get_or_insert(p);
                            }
                        }
                        _ => {}
                    }
                }
                Ev::NInv { from, act } => disps.push(Disp {
                    act: *act,
                    // a forwarding subscriber calls the store's own (inherent) dispatch method;
                    // thunks and middlewares use the dispatcher handle they were given
                    via: if matches!(from, Nest::Sub(..)) { Some(Via::Inherent) } else { None },
                    src: Src::Nest(from.clone()),
                    inv: p,
                    ret: None,
                    ok: None,
                    tid: r.tid,
                }),
                Ev::NRet { from, act, ok } => {
                    if let Some(d) = disps.iter_mut().rev().find(|d| d.act == *act && d.src == Src::Nest(from.clone())) {
                        d.ret = Some(p);
                        d.ok = Some(*ok);
                    }
                }
                _ => {}
            }
        }
        if let Some(p) = cleanup_out {
            for s in stores.iter_mut() {
                s.first_stop_ret.get_or_insert(p);
            }
        }
        if let Some(p) = cleanup_in {
            for s in stores.iter_mut() {
                s.first_stop_inv.get_or_insert(p);
            }
        }
        // second pass: pipeline runs per store
        let sub_store = |d: &Vec<StoreDigest>, sub: SubId| -> Option<StoreIx> {
            d.iter().position(|s| s.subs.iter().any(|(x, _)| *x == sub))
        };
        let mut cur: Vec<Option<usize>> = vec![None; scn.stores.len()]; // index of open run per store
        for (p, r) in h.recs.iter().enumerate() {
            let (store, act): (Option<StoreIx>, Option<ActId>) = match &r.ev {
                Ev::MwIn { act, .. } | Ev::MwOut { act, .. } | Ev::RedIn { act, .. } | Ev::RedOut { act, .. } => {
                    (Some(scn.actions[*act as usize].store), Some(*act))
                }
                Ev::NotIn { sub, act, .. } | Ev::NotOut { sub, act, .. } => {
                    if matches!(scn.sub(*sub).kind, SubKind::Direct) {
                        (Some(scn.actions[*act as usize].store), Some(*act))
                    } else {
                        (None, None)
                    }
                }
                Ev::SelCb { act, .. } => (Some(scn.actions[*act as usize].store), Some(*act)),
                Ev::MwErr { comp } => (comp_store.get(comp).copied(), None),
                // the state a selector is shown names the action that produced it, hence the store
                // (a selector object may be registered on several stores)
                Ev::SelIn { sub, st } => (
                    stores
                        .iter()
                        .position(|sd| sd.red_tid == Some(r.tid))
                        .or_else(|| scn.actions.get(st.last as usize).map(|a| a.store))
                        .or_else(|| sub_store(&stores, *sub)),
                    None,
                ),
                _ => (None, None),
            };
            let Some(s) = store else { continue };
            let sd = &mut stores[s];
            sd.red_tid.get_or_insert(r.tid);
            let open = cur[s];
            let same = match (open, act) {
                (Some(i), Some(a)) => sd.runs[i].act == a,
                (Some(_), None) => true,
                (None, _) => false,
            };
            if same {
                let i = open.unwrap();
                sd.runs[i].evs.push(p);
                sd.runs[i].last = p;
            } else if let Some(a) = act {
                sd.runs.push(Run { act: a, evs: vec![p], first: p, last: p });
                cur[s] = Some(sd.runs.len() - 1);
            }
            // an act-less event with no open run is dropped here; the PHASE oracle flags it
        }
        Digest { scn, h, ops, disps, stores, comp_store, cleanup_in, cleanup_out }
    }
}
