#!/bin/bash
# regenerate every evidence file on the clean tree (quick tier), seed 0
cd /verif
[ -n "$(git -C /repo status --porcelain -- src)" ] && { echo "/repo dirty"; exit 2; }
for p in C01 C02 C03 C04 C05 C06 C07 C08 C09 C10 C11 C12 C13 C14 C15 C16 C17 C18 C19; do ./check $p quick > /tmp/regen_$p.log 2>&1; c=$?; echo "$p exit=$c $(grep -ac VIOLATION /tmp/regen_$p.log)"; done
