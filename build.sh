#!/bin/bash
# Builds both harness flavours from /repo's current working tree (offline). cargo is a no-op when
# nothing changed.
set -e
cd "$(dirname "$0")"
export CARGO_NET_OFFLINE=true
W="${1:-all}"
if [ "$W" = all ] || [ "$W" = real ]; then
  (cd engines/real/harness && CARGO_TARGET_DIR=/verif/target/real cargo build --release --offline -q 2>&1 | grep -E "^error|error\[" -A 20 || true)
  test -x target/real/release/vreal
fi
if [ "$W" = all ] || [ "$W" = sched ]; then
  (cd engines/sched/harness && RUSTFLAGS="--cfg rs_store_verif" CARGO_TARGET_DIR=/verif/target/sched cargo build --release --offline -q 2>&1 | grep -E "^error|error\[" -A 20 || true)
  test -x target/sched/release/vsched
fi
