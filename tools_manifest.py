#!/usr/bin/env python3
# Regenerates MANIFEST.json from the table below (the per-property wording lives here).
import json, subprocess
props = [json.loads(l) for l in open('/verif/properties.jsonl')]
hooks_commit = "2f043b6"
T = {
 "C01": ("reference-model fold over the observed pipeline (hash-chained states), exactly-once for accepted actions, final get_state", "PBT (proptest scenarios on real threads + generated schedules) vs sequential reference model"),
 "C02": ("real-time order relation Ret(a)<Inv(b) => a before b over every dispatch entry point", "PBT: generated producers x schedules, order invariant over the event history"),
 "C03": ("per-action notify decision of the reference model vs every direct subscriber's (state,action) stream", "PBT vs reference model + differential between subscribers"),
 "C04": ("barrier invariant with Ret(stop) over the whole event history; racing Ok/Err dispatches; post-stop rejection", "PBT: generated stop races x schedules, history invariant"),
 "C05": ("queue-occupancy bound computed from the event log at every dispatch return with a gated (stepper) reducer; exact-capacity probes; lossless", "PBT with a stepper reducer x schedules, occupancy invariant; deadlock detection under owned schedules"),
 "C06": ("exact survivors / dropped metric / Ok-Err per call on a held reducer, conservation and survivor order on a running one", "PBT: bursts against a held reducer x schedules, survivor model + conservation equation"),
 "C07": ("per-action callback sequence parsed against the phase grammar, nesting, reducer-context thread, required components", "PBT vs phase grammar / reference model over the event history"),
 "C08": ("every value read is a published end-of-chain state, reads are monotone in real time, >= the state being notified", "PBT: concurrent readers x schedules, linearisation-style invariants over the history"),
 "C09": ("notified-while-registered / silent-after / exactly-one on_unsubscribe relations between Inv/Ret of subscribe, unsubscribe, dispatch, stop", "PBT: generated subscribe/unsubscribe/dispatch/stop histories x schedules, lifecycle invariants"),
 "C10": ("channeled stream vs the streams of direct subscribers registered just before and after it; delivery thread identity; flush at unsubscribe/stop", "PBT: differential against direct subscribers x schedules"),
 "C11": ("run count and thread of every scripted effect, follow-ups in the producing store's pipeline, nothing after Ret(stop), panicking effects", "PBT with fault injection (panicking effects) x schedules, effect accounting"),
 "C12": ("complete middleware call log (arguments, verdict consequences, on_error) vs the reference model for every verdict assignment", "exhaustive enumeration of verdict assignments + PBT vs reference model"),
 "C13": ("no execution without a runnable thread (incl. stop() needing its timeout) for random programs over the whole API", "PBT: random API programs x generated schedules (shuttle Random/PCT), deadlock detection; real-thread watchdog"),
 "C14": ("iterator items vs a whole-run direct subscriber's stream: gap-free window, completeness after iter() returned, None thrice, detach on drop", "PBT: differential against a direct subscriber x schedules"),
 "C15": ("C04's barrier invariant with Ret(drop) as the barrier, clones rejected, subscribers released, final state", "PBT: generated drop races x schedules, history invariant"),
 "C16": ("delivered (value,action) list = consecutive-duplicate removal of the notification stream", "exhaustive enumeration of value sequences (length<=8 over 3 values) + PBT through a running store"),
 "C17": ("record-of-last-settings model for Ok/InitError + behavioural probes (chain order, thread name, exact capacity and policy)", "exhaustive enumeration of builder call sequences + PBT, model-based"),
 "C18": ("counter equations against counts from the scripted callbacks' log; per-counter monotonicity across concurrent snapshots", "PBT x schedules, conservation equations"),
 "C19": ("all per-store oracles on each store's sub-log of two-store scenarios; no cross-store component/action; survivor store keeps working", "PBT: two-store programs x schedules, per-store reference model + isolation invariant"),
}
m = {
 "version": 1,
 "setup_cmd": "./check setup",
 "hooks": {
  "guard": "rs_store_verif",
  "enable": "checks build /repo/src through the out-of-tree manifest /verif/engines/sched/rs-store-sched/Cargo.toml ([lib] path=/repo/src/lib.rs; crossbeam and rusty_pool replaced by shuttle-based stand-ins; verif_rt = engines/sched/shim-rt: shuttle's thread module and shuttle's Mutex behind a guard that yields after unlocking) with RUSTFLAGS='--cfg rs_store_verif'; driver R builds /repo unmodified with the guard off; /repo/Cargo.toml is untouched",
  "baseline_off_cmd": "cd /repo && cargo test --workspace --no-fail-fast --offline",
  "source_commits": [hooks_commit],
  "add_only": True,
 },
 "engines": [
  {"name": "R", "path": "engines/real/harness", "serves_properties": [p['id'] for p in props], "kind_free_text": "property-based testing: proptest-generated scenarios executed on the real crate with OS threads (guard off), judged by oracles over a totally ordered event log"},
  {"name": "S", "path": "engines/sched/harness", "serves_properties": [p['id'] for p in props], "kind_free_text": "property-based testing over schedules: the same scenarios x seeded Random/PCT schedules on shuttle (schedule-controlled runtime; crossbeam/rusty_pool stand-ins validated by differentials)"},
  {"name": "F", "path": "fuzz", "serves_properties": [p['id'] for p in props], "kind_free_text": "coverage-guided fuzzing (cargo-fuzz/libFuzzer): bytes decode to a scenario + a byte-driven schedule; thorough tier only, supplementary"},
 ],
 "checks": [],
 "not_applicable": [],
 "notes": "All 19 properties are decided by generated-input search against explicit oracles (DESIGN.md). known-findings.txt lists two open findings (C09: the notification already in flight may arrive after unsubscribe() returned; C13: the shutdown sweep holds the subscriber-list lock while blocked on an unread iterator) and five repaired defects (fix: commits 0fae376, ee7cc51, 7853abf, 4e55021, 214c4f4 in /repo).",
}
for p in props:
    pid = p['id']
    what, tech = T[pid]
    m['checks'].append({
      "property_id": pid,
      "quick_cmd": "./check %s quick" % pid,
      "thorough_cmd": "./check %s thorough" % pid,
      "evidence_file": "/verif/evidence/%s.json" % pid,
      "replay_cmd_template": "./check replay {path}",
      "engine": "R+S",
      "level_claimed": {"category": "exploration", "text": "Generated-input search: " + what + ". Explores sampled scenarios and sampled schedules of small programs; it finds violations and reports what was covered, it does not establish absence.", "design_ref": "DESIGN.md section 7, " + pid},
      "level_note": "R: real crate, real crossbeam/rusty_pool, OS schedule (verdicts never depend on wall-clock time). S: shuttle runtime + channel/pool stand-ins + cfg-guarded import substitution (the crate's Mutex yields after every unlock so that windows right behind a critical section can be entered; the crate is compiled with overflow checks in both flavours), validated by the shim and engine differentials in setup; schedules are sampled (seeded Random and PCT depth 1-3), not enumerated.",
      "technique": tech,
    })
json.dump(m, open('/verif/MANIFEST.json', 'w'), indent=1)
print("manifest written:", len(m['checks']), "checks")
