//! One fuzz target: bytes -> (profile, raw scenario material, byte-driven schedule).
//! The same generators (`build`) and oracles (`check`) as the proptest drivers are used; a
//! violation that is not a listed known finding panics with the VIOLATION text and libFuzzer saves
//! the input, which is the replay file.
#![no_main]
#[path = "../../harness/src/build.rs"]
mod build;
#[path = "../../harness/src/diffs.rs"]
mod diffs;
#[path = "../../harness/src/digest.rs"]
mod digest;
#[path = "../../harness/src/drive.rs"]
mod drive;
#[path = "../../harness/src/exec.rs"]
mod exec;
#[path = "../../harness/src/log.rs"]
mod log;
#[path = "../../harness/src/pipe.rs"]
mod pipe;
#[path = "../../harness/src/profile.rs"]
mod profile;
#[path = "../../harness/src/props/mod.rs"]
mod props;
#[path = "../../harness/src/rt.rs"]
mod rt;
#[path = "../../harness/src/scenario.rs"]
mod scenario;
#[path = "../../harness/src/world.rs"]
mod world;

use arbitrary::Unstructured;
use libfuzzer_sys::fuzz_target;
use profile::{Raw, RawOp, Tier, KNOBS};
use std::collections::HashSet;
use std::sync::{Arc, Mutex, OnceLock};

const PROFILES: [&str; 19] = ["C13", "C04", "C09", "C10", "C14", "C02", "C01", "C05", "C06", "C11", "C15", "C19", "C03", "C07", "C08", "C12", "C16", "C17", "C18"];

struct State {
    execs: u64,
    nontrivial: HashSet<u64>,
    known: std::collections::BTreeMap<String, u64>,
    inconclusive: u64,
    samples: Vec<serde_json::Value>,
    started: std::time::Instant,
}

fn state() -> &'static Mutex<State> {
    static S: OnceLock<Mutex<State>> = OnceLock::new();
    S.get_or_init(|| {
        // quiet panic hook (scripted panics, runtime deadlock reports)
        shuttle::check_random(|| {}, 1);
        let _ = std::panic::take_hook();
        let default = std::panic::take_hook();
        std::panic::set_hook(Box::new(move |info| {
            let msg = info.payload().downcast_ref::<String>().cloned().or_else(|| info.payload().downcast_ref::<&str>().map(|s| s.to_string())).unwrap_or_default();
            const QUIET: [&str; 5] = [world::SCRIPTED_PANIC, "no dispatch failed", "deadlock!", "exceeded max_steps", "the channel of the thread pool has been closed"];
            if QUIET.iter().any(|q| msg.contains(q)) {
                return;
            }
            default(info);
        }));
        Mutex::new(State { execs: 0, nontrivial: HashSet::new(), known: Default::default(), inconclusive: 0, samples: vec![], started: std::time::Instant::now() })
    })
}

fn decode(data: &[u8]) -> Option<(usize, Raw, Vec<u8>)> {
    let mut u = Unstructured::new(data);
    let pi = u.arbitrary::<u8>().ok()? as usize % PROFILES.len();
    let mut knobs = Vec::with_capacity(KNOBS);
    for _ in 0..KNOBS {
        knobs.push(u.arbitrary::<u16>().ok()?);
    }
    let nthreads = 1 + (u.arbitrary::<u8>().ok()? % 4) as usize;
    let mut threads = vec![];
    for _ in 0..nthreads {
        let n = (u.arbitrary::<u8>().ok()? % 9) as usize;
        let mut ops = vec![];
        for _ in 0..n {
            ops.push(RawOp { k: u.arbitrary().ok()?, a: u.arbitrary().ok()?, b: u.arbitrary().ok()?, c: u.arbitrary().ok()? });
        }
        threads.push(ops);
    }
    // one more byte: a quarter of the inputs use a generator borrowed from another property
    // (same rule as the proptest drivers, `drive::build_case`)
    let alt = u.arbitrary::<u8>().unwrap_or(1);
    let rest = u.take_rest().to_vec();
    Some((pi, Raw { knobs, threads, alt: alt as _ }, rest))
}

fuzz_target!(|data: &[u8]| {
    let st = state();
    let Some((mut pi, raw, sched_bytes)) = decode(data) else { return };
    if let Ok(want) = std::env::var("VERIF_FUZZ_PROFILE") {
        if let Some(i) = PROFILES.iter().position(|p| *p == want) {
            pi = i;
        }
    }
    let p = props::by_id(PROFILES[pi]).unwrap();
    let (scn, borrowed) = drive::build_case(p, &raw, Tier::Quick);
    let scn = Arc::new(scn);
    let h = exec::execute(&scn, &exec::Sched::Bytes(sched_bytes.clone()));
    if std::env::var("VERIF_FUZZ_TRACE").is_ok() {
        // debugging aid: dump the decoded case as a replay file for `vsched trace` / `vsched replay`
        let r = drive::Replay { property: p.id.to_string(), driver: "S".into(), sched: exec::Sched::Bytes(sched_bytes), message: "decoded fuzz input".into(), scenario: (*scn).clone() };
        let path = std::env::var("VERIF_FUZZ_TRACE").unwrap();
        let _ = std::fs::write(&path, serde_json::to_string_pretty(&r).unwrap());
        eprintln!("decoded case written to {}", path);
    }
    let known = {
        static K: OnceLock<std::collections::HashMap<&'static str, Vec<(String, String)>>> = OnceLock::new();
        K.get_or_init(|| PROFILES.iter().map(|id| (*id, drive::known_sigs(id))).collect()).get(p.id).cloned().unwrap_or_default()
    };
    let mut g = st.lock().unwrap();
    g.execs += 1;
    match &h.end {
        log::End::Completed => {}
        // liveness of a borrowed scenario is the lending property's business
        log::End::Deadlock(_) if p.liveness && borrowed.is_none() => {}
        _ => {
            g.inconclusive += 1;
            return;
        }
    }
    let out = (p.check)(&scn, &h);
    if out.inconclusive.is_some() {
        g.inconclusive += 1;
        return;
    }
    if out.nontrivial && g.nontrivial.insert(scn.hash64()) && g.samples.len() < 3 {
        let mut s = drive::summarize(&scn, &h);
        s["schedule"] = serde_json::json!("byte-driven (fuzzer input tail)");
        g.samples.push(s);
    }
    for v in &out.violations {
        match v.known {
            Some(sig) if known.iter().any(|(s, _)| s == sig) => {
                *g.known.entry(sig.to_string()).or_default() += 1;
            }
            _ => {
                drop(g);
                panic!("VIOLATION property={} driver=F {}", p.id, v.msg);
            }
        }
    }
    if g.execs % 500 == 0 {
        let dir = std::env::var("VERIF_DIR").unwrap_or_else(|_| "/verif".into()) + "/evidence/.parts";
        let _ = std::fs::create_dir_all(&dir);
        let id = std::env::var("VERIF_FUZZ_PROFILE").unwrap_or_else(|_| "ALL".into());
        let part = serde_json::json!({
            "property": id, "driver": "F", "evaluations": g.execs, "cases": g.execs,
            "distinct_nontrivial": g.nontrivial.len(),
            "nontrivial_hashes": g.nontrivial.iter().map(|h| format!("F{:016x}", h)).collect::<Vec<_>>(),
            "inconclusive": g.inconclusive, "known_findings_hit": g.known, "samples": g.samples,
            "wall_s": g.started.elapsed().as_secs_f64(), "violations": [], "classes": {},
            "rule": p.rule, "assumptions": p.assumptions,
        });
        let w = std::env::var("VERIF_FUZZ_PART").unwrap_or_default();
        let _ = std::fs::write(format!("{}/{}.F{}.json", dir, id, w), serde_json::to_string(&part).unwrap());
    }
});
